(** C09 for CyberCycle (every n >= 3, on the general form [spec_cyber_gen] the implementation computes):
    double real pole r = 1 - alpha = (n-1)/(n+1) in (0,1).
    BIBO with gain n^2; zero-input response after k zeros at most  n^2 V (1 + (k-n-5)) r^(k-n-6). *)
From Coq Require Import List Arith Lia ZArith Reals Lra.
From SF Require Import Res Scalar View Models Spec Core SpecLin SpecStab.
From SF.Proofs Require Import Window RBase LinBase LinCC LinLinear LinDC LinConv StabBase StabRoof.
Import ListNotations.
Open Scope R_scope.
Local Existing Instance ROps.

(** * a double-pole section with bounded forcing, zero initial state *)
Lemma dp_state_bound (P : nat -> R * R) (f : nat -> R) r F : Rabs r < 1 -> 0 <= F ->
  P 0%nat = (0, 0) ->
  (forall k, P (S k) = (f k + 2 * r * fst (P k) - r * r * snd (P k), fst (P k))) ->
  (forall k, Rabs (f k) <= F) ->
  forall k, Rabs (fst (P k) - r * snd (P k)) <= F / (1 - Rabs r)
            /\ Rabs (fst (P k)) <= F / (1 - Rabs r) / (1 - Rabs r)
            /\ Rabs (snd (P k)) <= F / (1 - Rabs r) / (1 - Rabs r).
Proof.
  intros Hr HF H0 Hrec Hf. set (rho := Rabs r) in *.
  assert (Hr0 : 0 <= rho) by apply Rabs_pos.
  set (Fz := F / (1 - rho)). set (Fy := Fz / (1 - rho)).
  assert (HFz : 0 <= Fz) by (apply Rle_mult_inv_pos; lra).
  assert (HFy : 0 <= Fy) by (apply Rle_mult_inv_pos; lra).
  assert (Ez : F = Fz * (1 - rho)) by (unfold Fz; field; lra).
  assert (Ey : Fz = Fy * (1 - rho)) by (unfold Fy; field; lra).
  induction k as [|k IH].
  - rewrite H0. cbn [fst snd]. rewrite Rmult_0_r, Rminus_0_r, Rabs_R0. lra.
  - destruct IH as (Iz & I1 & I0). rewrite Hrec. cbn [fst snd].
    set (y1 := fst (P k)) in *. set (y0 := snd (P k)) in *. pose proof (Hf k) as Hfk.
    set (fk := f k) in *. clearbody fk y1 y0.
    assert (Hz : Rabs (fk + 2 * r * y1 - r * r * y0 - r * y1) <= Fz).
    { replace (fk + 2 * r * y1 - r * r * y0 - r * y1) with (fk + r * (y1 - r * y0)) by ring.
      eapply Rle_trans; [apply Rabs_triang|]. rewrite Rabs_mult. fold rho.
      assert (rho * Rabs (y1 - r * y0) <= rho * Fz) by (apply Rmult_le_compat_l; lra). lra. }
    split; [exact Hz|]. split; [|exact I1].
    replace (fk + 2 * r * y1 - r * r * y0) with (r * y1 + (fk + 2 * r * y1 - r * r * y0 - r * y1)) by ring.
    eapply Rle_trans; [apply Rabs_triang|]. rewrite Rabs_mult. fold rho.
    assert (rho * Rabs y1 <= rho * Fy) by (apply Rmult_le_compat_l; lra). lra.
Qed.

(** * the pole and the gain *)
Definition cc_pole (n : nat) : R := 1 - @ccb_alpha R ROps n.

Lemma stab_cc_pole_R n : @stab_cc_pole R ROps n = cc_pole n. Proof. reflexivity. Qed.

Lemma cc_pole_eq n : cc_pole n = (INR n - 1) / (INR n + 1).
Proof. unfold cc_pole. rewrite ccb_alpha_R. pose proof (pos_INR n). field. lra. Qed.

(** C09 (CyberCycle): the double pole (n-1)/(n+1) is in [0,1) *)
Lemma cc_pole_range n : (1 <= n)%nat -> 0 <= cc_pole n < 1.
Proof.
  intros Hn. rewrite cc_pole_eq. apply le_INR in Hn. cbn in Hn. set (x := INR n) in *. clearbody x. split.
  - apply Rle_mult_inv_pos; lra.
  - apply (Rmult_lt_reg_r (x + 1)); [lra|]. replace ((x - 1) / (x + 1) * (x + 1)) with (x - 1) by (field; lra). lra.
Qed.

(** forcing bound 4 (1-alpha/2)^2 U divided by (1-r)^2 = alpha^2 is n^2 U *)
Lemma cc_gain_eq n U : (1 <= n)%nat ->
  (1 - ccb_alpha n / 2) * (1 - ccb_alpha n / 2) * (4 * U) / (1 - Rabs (cc_pole n)) / (1 - Rabs (cc_pole n))
  = INR n * INR n * U.
Proof.
  intros Hn. rewrite (Rabs_pos_eq (cc_pole n)) by (apply cc_pole_range; exact Hn).
  unfold cc_pole. rewrite ccb_alpha_R. apply le_INR in Hn. cbn in Hn. field. lra.
Qed.

(** * the general smooth is bounded and linear in the lags *)
Lemma ccb_gsmooth_bound n U (h : list R) t j : 0 <= U -> bounded U h -> Rabs (ccb_gsmooth n h t j) <= U.
Proof.
  intros HU Hb. unfold ccb_gsmooth. destruct (Nat.ltb (n - 1 - j) 3).
  - change (@s0 R ROps) with 0. rewrite Rabs_R0. exact HU.
  - rewrite ccb_smooth_R.
    pose proof (bounded_lagx U h t j HU Hb) as H0. pose proof (bounded_lagx U h t (j + 1) HU Hb) as H1.
    pose proof (bounded_lagx U h t (j + 2) HU Hb) as H2. pose proof (bounded_lagx U h t (j + 3) HU Hb) as H3.
    apply Rabs_le_between in H0. apply Rabs_le_between in H1. apply Rabs_le_between in H2.
    apply Rabs_le_between in H3. apply Rabs_le. lra.
Qed.

Lemma ccb_gsmooth_zero n (h : list R) t j :
  (forall i, (i <= 3)%nat -> lagx h t (j + i) = 0) -> ccb_gsmooth n h t j = 0.
Proof.
  intros H. unfold ccb_gsmooth. destruct (Nat.ltb (n - 1 - j) 3); [reflexivity|].
  rewrite ccb_smooth_R. rewrite <- (Nat.add_0_r j) at 1. rewrite !H by lia. field.
Qed.

Section CC.
Variable n : nat.
Hypothesis Hn : (3 <= n)%nat.
Let al := @ccb_alpha R ROps n.
Let r := cc_pole n.
Local Notation upto h k := (ccb_upto (ccb_gsmooth n) n al h k).

Definition cc_forcing (h : list R) (k : nat) : R :=
  if Nat.ltb (S k) n then 0
  else (1 - al / 2) * (1 - al / 2) *
       (ccb_gsmooth n h k 0 - 2 * ccb_gsmooth n h k 1 + ccb_gsmooth n h k 2).

Lemma cc_warm (h : list R) k : (k < n)%nat -> upto h k = (0, 0).
Proof.
  induction k as [|k IH]; intros Hk; [reflexivity|].
  rewrite ccb_upto_S, IH by lia. destruct (Nat.ltb_spec (S k) n); [reflexivity | lia].
Qed.

Lemma cc_rec (h : list R) k :
  upto h (S k) = (cc_forcing h k + 2 * r * fst (upto h k) - r * r * snd (upto h k), fst (upto h k)).
Proof.
  rewrite ccb_upto_S. unfold cc_forcing. destruct (Nat.ltb_spec (S k) n) as [H|H].
  - rewrite cc_warm by lia. cbn [fst snd]. f_equal. ring.
  - rewrite ccb_eq_R. unfold r, cc_pole. fold al. f_equal; try ring.
Qed.

Lemma cc_forcing_bound U (h : list R) k : 0 <= U -> bounded U h ->
  Rabs (cc_forcing h k) <= (1 - al / 2) * (1 - al / 2) * (4 * U).
Proof.
  intros HU Hb. pose proof (Rle_0_sqr (1 - al / 2)) as X. unfold Rsqr in X.
  unfold cc_forcing. destruct (Nat.ltb (S k) n).
  - rewrite Rabs_R0. apply Rmult_le_pos; lra.
  - rewrite Rabs_mult, (Rabs_pos_eq _ X). apply Rmult_le_compat_l; [exact X|].
    pose proof (ccb_gsmooth_bound n U h k 0 HU Hb) as H0. pose proof (ccb_gsmooth_bound n U h k 1 HU Hb) as H1.
    pose proof (ccb_gsmooth_bound n U h k 2 HU Hb) as H2.
    apply Rabs_le_between in H0. apply Rabs_le_between in H1. apply Rabs_le_between in H2.
    apply Rabs_le. lra.
Qed.

(** every cycle value, and cycle_t - r cycle_{t-1}, is bounded by n^2 U *)
Lemma cc_state_bound U (h : list R) k : 0 <= U -> bounded U h ->
  Rabs (fst (upto h k) - r * snd (upto h k)) <= INR n * INR n * U /\
  Rabs (fst (upto h k)) <= INR n * INR n * U.
Proof.
  intros HU Hb. pose proof (cc_pole_range n ltac:(lia)) as Hr. fold r in Hr.
  pose proof (Rle_0_sqr (1 - al / 2)) as X. unfold Rsqr in X.
  destruct (@dp_state_bound (fun k => upto h k) (cc_forcing h) r ((1 - al / 2) * (1 - al / 2) * (4 * U))
              ltac:(rewrite Rabs_pos_eq; lra) ltac:(apply Rmult_le_pos; lra) eq_refl (cc_rec h)
              (fun k => cc_forcing_bound U h k HU Hb) k) as (Bz & By & _).
  pose proof (cc_gain_eq n U ltac:(lia)) as E. fold al r in E. cbv beta in *.
  rewrite E in By. split; [|exact By].
  eapply Rle_trans; [exact Bz|]. rewrite <- E. rewrite (Rabs_pos_eq r) by lra.
  set (Fz := (1 - al / 2) * (1 - al / 2) * (4 * U) / (1 - r)).
  assert (0 <= Fz) by (unfold Fz; apply Rle_mult_inv_pos; [apply Rmult_le_pos; lra | lra]).
  apply (Rmult_le_reg_r (1 - r)); [lra|]. replace (Fz / (1 - r) * (1 - r)) with Fz by (field; lra). nra.
Qed.

Lemma cyber_out_some (h : list R) o : cout (@cyber_core R ROps n) h = Ok (Some o) ->
  o = fst (upto h (length h)).
Proof.
  rewrite cyber_closed_form_gen by exact Hn. unfold spec_cyber_gen, ccb_out. fold al.
  destruct h as [|x h']; [discriminate|]. intros H. injection H as H. symmetry. exact H.
Qed.

(** C09 (CyberCycle): BIBO with gain n^2 *)
Theorem cyber_bibo : bibo (@cyber_core R ROps n) (INR n * INR n).
Proof.
  intros U vs Hb o Ho. rewrite (cyber_out_some vs o Ho). destruct vs as [|x vs'].
  - rewrite cyber_closed_form_gen in Ho by exact Hn. discriminate.
  - apply cc_state_bound; [apply (bounded_nonneg U x vs' Hb) | exact Hb].
Qed.

(** * zero-input response *)
Lemma lagx_app_zeros (d : list R) k t j : lagx (d ++ repeat 0 k) t j = lagx d t j.
Proof.
  unfold lagx. destruct (Nat.ltb t j); [reflexivity|].
  destruct (Nat.lt_ge_cases (t - j) (length d)) as [H|H].
  - apply app_nth1. exact H.
  - rewrite app_nth2 by exact H. rewrite (nth_overflow d) by exact H.
    destruct (Nat.lt_ge_cases (t - j - length d) k) as [H'|H'].
    + apply nth_repeat_lt. exact H'.
    + apply nth_overflow. rewrite repeat_length. exact H'.
Qed.

Lemma ccb_gsmooth_app_zeros (d : list R) k t j : ccb_gsmooth n (d ++ repeat 0 k) t j = ccb_gsmooth n d t j.
Proof. unfold ccb_gsmooth. destruct (Nat.ltb (n - 1 - j) 3); [reflexivity|]. rewrite !ccb_smooth_R, !lagx_app_zeros. reflexivity. Qed.

Lemma ccb_upto_app_zeros (d : list R) k j : upto (d ++ repeat 0 k) j = upto d j.
Proof.
  induction j as [|j IH]; [reflexivity|]. rewrite !ccb_upto_S, IH, !ccb_gsmooth_app_zeros. reflexivity.
Qed.

Lemma cc_forcing_zero (d : list R) t : (length d + 5 <= t)%nat -> (n <= S t)%nat -> cc_forcing d t = 0.
Proof.
  intros H1 H2. unfold cc_forcing. destruct (Nat.ltb_spec (S t) n); [lia|].
  rewrite !ccb_gsmooth_zero; [ring | | |]; intros i Hi; rewrite lagx_ge by lia; apply nth_overflow; lia.
Qed.

Definition cc_env (V : R) (k : nat) : R :=
  INR n * INR n * V * (1 + INR (k - (n + 5))) * r ^ (k - (n + 6)).

(** C09 (CyberCycle): after values bounded by V, k zero inputs leave at most
    n^2 V (1 + (k-n-5)) r^(k-n-6),  r = (n-1)/(n+1) *)
Theorem cyber_zero_input : zero_input_bound (@cyber_core R ROps n) cc_env.
Proof.
  intros V d k o HV Hd Ho. rewrite (cyber_out_some _ o Ho). rewrite ccb_upto_app_zeros.
  rewrite app_length, repeat_length. pose proof (cc_pole_range n ltac:(lia)) as Hr. fold r in Hr.
  set (T0 := (length d + n + 5)%nat). set (B := INR n * INR n * V).
  assert (HB : 0 <= B) by (unfold B; pose proof (pos_INR n); apply Rmult_le_pos; [nra | lra]).
  unfold cc_env. fold B.
  destruct (Nat.le_gt_cases k (n + 5)) as [Hk|Hk].
  - replace (k - (n + 5))%nat with 0%nat by lia. replace (k - (n + 6))%nat with 0%nat by lia.
    cbn [INR pow]. rewrite Rplus_0_r, !Rmult_1_r. apply cc_state_bound; assumption.
  - set (z := fun i => fst (upto d (T0 + i))).
    assert (Hrec : forall i, z (S (S i)) = 2 * r * z (S i) - r * r * z i).
    { intros i. unfold z. replace (T0 + S (S i))%nat with (S (S (T0 + i))) by lia.
      rewrite cc_rec. cbn [fst]. rewrite cc_forcing_zero by (unfold T0; lia).
      replace (T0 + S i)%nat with (S (T0 + i)) by lia.
      change (snd (upto d (S (T0 + i)))) with (fst (upto d (T0 + i))). ring. }
    pose proof (@double_pole_bound z r ltac:(rewrite Rabs_pos_eq; lra) Hrec (k - (n + 5))) as Hb.
    unfold z at 1 in Hb. replace (T0 + (k - (n + 5)))%nat with (length d + k)%nat in Hb by (unfold T0; lia).
    eapply Rle_trans; [exact Hb|]. rewrite (Rabs_pos_eq r) by lra.
    replace (k - (n + 5) - 1)%nat with (k - (n + 6))%nat by lia.
    apply Rmult_le_compat_r; [apply pow_le; lra|].
    destruct (cc_state_bound V d (T0 + 0) HV Hd) as [_ B0].
    destruct (cc_state_bound V d (S (T0 + 0)) HV Hd) as [B1 _].
    change (snd (upto d (S (T0 + 0)))) with (fst (upto d (T0 + 0))) in B1.
    unfold z. replace (T0 + 1)%nat with (S (T0 + 0)) by lia. fold B in B0, B1.
    pose proof (pos_INR (k - (n + 5))) as Hi.
    assert (INR (k - (n + 5)) * Rabs (fst (upto d (S (T0 + 0))) - r * fst (upto d (T0 + 0)))
            <= INR (k - (n + 5)) * B) by (apply Rmult_le_compat_l; lra).
    lra.
Qed.

(** C09 (CyberCycle), fading memory *)
Theorem cyber_fading : fading_bound (@cyber_core R ROps n) cc_env.
Proof. apply fading_of_zero_input; [apply cyber_linear; exact Hn | apply cyber_zero_input]. Qed.

End CC.

(** epsilon forms *)
Corollary cyber_zero_input_decays n : (3 <= n)%nat -> zero_input_decays (@cyber_core R ROps n).
Proof.
  intros Hn d eps He. destruct (bounded_exists d) as [V [HV Hd]].
  apply (@zero_input_decays_of_bound _ _ (cyber_zero_input n Hn)) with (V := V); try assumption.
  intros V' eps' He'. pose proof (cc_pole_range n ltac:(lia)) as Hr.
  destruct (@poly_geo_zero_pred (cc_pole n) (Rabs (INR n * INR n * V')) (Rabs (INR n * INR n * V')) Hr
              (Rabs_pos _) (Rabs_pos _) eps' He') as [M HM].
  exists (M + n + 5)%nat. intros k Hk. unfold cc_env.
  pose proof (HM (k - (n + 5))%nat ltac:(lia)) as H.
  replace (k - (n + 5) - 1)%nat with (k - (n + 6))%nat in H by lia.
  eapply Rle_lt_trans; [|exact H]. set (A := INR n * INR n * V'). pose proof (Rle_abs A) as HA.
  pose proof (pos_INR (k - (n + 5))) as Hi. pose proof (Rabs_pos A) as HA0.
  assert (Hp : 0 <= cc_pole n ^ (k - (n + 6))) by (apply pow_le; lra).
  apply Rmult_le_compat_r; [exact Hp|]. nra.
Qed.

Corollary cyber_fading_eps n : (3 <= n)%nat -> fading_eps (@cyber_core R ROps n).
Proof. intros Hn. apply fading_eps_of_zero_input; [apply cyber_linear; exact Hn | apply cyber_zero_input_decays; exact Hn]. Qed.
