(** SuperSmoother (super_smoother.rs) and RoofingFilter (roofing_filter.rs): C11 closed forms. *)
From Coq Require Import List Arith Lia ZArith Reals Lra.
From SF Require Import Res Scalar View Models Spec Core SpecLin.
From SF.Proofs Require Import Window RBase LinBase.
Import ListNotations.
Open Scope R_scope.
Local Existing Instance ROps.

(** * SuperSmoother *)

(** the recursion at [R] *)
Lemma ssb_eq_R c1 b1 c3 x x1 f1 f2 :
  ssb_eq c1 b1 c3 x x1 f1 f2 = c1 * (x + x1) / 2 + b1 * f1 + c3 * f2.
Proof. unfold ssb_eq. rewrite l_two_R, sdivd_two. reflexivity. Qed.

Lemma ssb_upto_S c1 b1 c3 (h : list R) t :
  ssb_upto c1 b1 c3 h (S t) =
  (ssb_eq c1 b1 c3 (lagx h t 0) (lagx h t 1) (fst (ssb_upto c1 b1 c3 h t)) (snd (ssb_upto c1 b1 c3 h t)),
   fst (ssb_upto c1 b1 c3 h t)).
Proof. reflexivity. Qed.

(** causality *)
Lemma ssb_upto_app c1 b1 c3 (h : list R) v k : (k <= length h)%nat ->
  ssb_upto c1 b1 c3 (h ++ [v]) k = ssb_upto c1 b1 c3 h k.
Proof.
  induction k as [|t IH]; intros H; [reflexivity|].
  rewrite !ssb_upto_S, IH by lia. rewrite !lagx_app by lia. reflexivity.
Qed.

Definition ss_inv (k : @ss_coef R) (h : list R) (s : @ss_st R) : Prop :=
  ss_i s = length h /\ ss_filt s = ss_f1 s /\
  (ss_f1 s, ss_f2 s) = ssb_upto (ss_c1 k) (ss_c2 k) (ss_c3 k) h (length h) /\
  ss_lastval s = lagx h (length h) 1.

Lemma ss_inv_new k : ss_inv k [] ss_new.
Proof. repeat split. Qed.

Lemma ss_step_inv k h s v : ss_inv k h s ->
  exists s', ss_step k s v = Ok s' /\ ss_inv k (h ++ [v]) s'.
Proof.
  intros (Hi & Hf & Hp & Hl). unfold ss_step.
  rewrite two_R, sdiv_two. cbn [bind]. eexists; split; [reflexivity|].
  unfold ss_inv. cbn [ss_i ss_filt ss_f1 ss_f2 ss_lastval].
  rewrite app_length. cbn [length]. replace (length h + 1)%nat with (S (length h)) by lia.
  repeat split.
  - lia.
  - rewrite ssb_upto_S, ssb_upto_app by lia. rewrite <- Hp. cbn [fst snd].
    rewrite lagx_app_last, lagx_app_S by lia. rewrite <- Hl, ssb_eq_R. reflexivity.
  - rewrite lagx_ge by lia. replace (S (length h) - 1)%nat with (length h) by lia.
    rewrite app_nth2 by lia. rewrite Nat.sub_diag. reflexivity.
Qed.

Lemma ss_lastf_inv k n h s : ss_inv k h s ->
  ss_lastf n s = Ok (ssb_out (ss_c1 k) (ss_c2 k) (ss_c3 k) n h).
Proof.
  intros (Hi & Hf & Hp & Hl). unfold ss_lastf, ssb_out. rewrite Hi, Hf.
  destruct (Nat.ltb (length h) n); [reflexivity|]. rewrite <- Hp. reflexivity.
Qed.

(** the coefficients are the functions of [n] of the property text *)
Definition ssb_coef (n : nat) : @ss_coef R :=
  {| ss_c1 := ssb_c1 n; ss_c2 := ssb_b1 n; ss_c3 := ssb_c3 n |}.

Lemma ss_coefs_R n : (1 <= n)%nat -> @ss_coefs R ROps n = Ok (ssb_coef n).
Proof.
  intros Hn. assert (Hz : INR n <> 0) by (apply INR_pos_neq; lia).
  unfold ss_coefs. cbn [sofnat ROps]. rewrite !sdiv_R_ok by exact Hz.
  cbn [bind sexp scos ROps]. unfold ssb_coef, ssb_c1, ssb_b1, ssb_c3, ssb_a1, ssb_theta, sexpd, scosd, ssq.
  cbn [sofnat ROps]. rewrite !sdivd_R by exact Hz. cbn [sexp scos ROps].
  f_equal. unfold l_two. cbn [smul sneg ssub ROps]. f_equal; ring.
Qed.

(** C11 (SuperSmoother): at every step the output is the batch re-evaluation of the two-pole
    recursion with coefficients depending on the window length only *)
Theorem ss_closed_form n vs : (1 <= n)%nat ->
  cout (@ss_core R ROps n) vs = Ok (@spec_ss R ROps n vs).
Proof.
  intros Hn.
  destruct (@crun_inv R (@ss_core R ROps n) (fun _ => True)
              (fun h s => fst s = ssb_coef n /\ ss_inv (ssb_coef n) h (snd s)) (ssb_coef n, ss_new))
    with (vs := vs) as [s [Hr [Hk Hi]]].
  - cbn [cnew ss_core]. rewrite ss_coefs_R by exact Hn. reflexivity.
  - split; [reflexivity | apply ss_inv_new].
  - intros h [k s] v _ _ [Hk Hi]. cbn [fst snd] in *. subst k.
    destruct (@ss_step_inv _ _ _ v Hi) as [s' [Hs' Hi']].
    cbn [cstep ss_core fst snd]. rewrite Hs'. cbn [bind]. eexists; split; [reflexivity|]. split; [reflexivity | exact Hi'].
  - apply Forall_forall; trivial.
  - unfold cout. rewrite Hr. cbn [bind clast ss_core]. rewrite (@ss_lastf_inv _ n _ _ Hi). reflexivity.
Qed.


(** * the angle 4.4422/N *)
Lemma ssb_theta_R n : (1 <= n)%nat -> @ssb_theta R ROps n = 44422 / 10000 / INR n.
Proof.
  intros Hn. unfold ssb_theta. cbn [sofnat ROps]. rewrite sdivd_R by (apply INR_pos_neq; lia).
  cbn [sofdec ROps]. replace (10 ^ Z.of_nat 4)%Z with 10000%Z by reflexivity. reflexivity.
Qed.

Lemma theta_bounds n : (3 <= n)%nat -> 0 < 44422 / 10000 / INR n < 3 / 2.
Proof.
  intros Hn. assert (H3 : 3 <= INR n) by (apply (le_INR 3 n) in Hn; cbn in Hn; lra).
  set (x := INR n) in *. clearbody x.
  assert (Hx : 44422 / 10000 / x * x = 44422 / 10000) by (field; lra).
  set (th := 44422 / 10000 / x) in *. clearbody th. split; nra.
Qed.

(** the divisor of alpha1 does not vanish for N >= 2: 4.4422/N is in (0, pi/2) for N >= 3 and
    2.2211 in (pi/2, pi) for N = 2 *)
Lemma cos_theta_neq n : (2 <= n)%nat -> cos (@ssb_theta R ROps n) <> 0.
Proof.
  intros Hn. rewrite ssb_theta_R by lia.
  pose proof PI_4 as P4. pose proof PI2_3_2 as P32.
  destruct (Nat.eq_dec n 2) as [E|E].
  - subst n. replace (INR 2) with 2 by (cbn; lra).
    apply Rlt_not_eq. apply cos_lt_0; lra.
  - destruct (theta_bounds n) as [H0 H1]; [lia|].
    apply Rgt_not_eq. apply cos_gt_0; lra.
Qed.

(** * RoofingFilter *)

Lemma hpb_eq_R al x x1 x2 h1 h2 :
  hpb_eq al x x1 x2 h1 h2 =
  (1 - al / 2) * (1 - al / 2) * (x - 2 * x1 + x2) + 2 * (1 - al) * h1 - (1 - al) * (1 - al) * h2.
Proof. unfold hpb_eq. rewrite l_two_R, sdivd_two. reflexivity. Qed.

Lemma hpb_upto_S al (h : list R) t :
  hpb_upto al h (S t) =
  (hpb_eq al (lagx h t 0) (lagx h t 1) (lagx h t 2) (fst (hpb_upto al h t)) (snd (hpb_upto al h t)),
   fst (hpb_upto al h t)).
Proof. reflexivity. Qed.

Lemma hpb_upto_app al (h : list R) v k : (k <= length h)%nat ->
  hpb_upto al (h ++ [v]) k = hpb_upto al h k.
Proof.
  induction k as [|t IH]; intros H; [reflexivity|].
  rewrite !hpb_upto_S, IH by lia. rewrite !lagx_app by lia. reflexivity.
Qed.

Lemma hpb_at_app al (h : list R) v t : (t < length h)%nat -> hpb_at al (h ++ [v]) t = hpb_at al h t.
Proof. intros H. unfold hpb_at. rewrite hpb_upto_app by lia. reflexivity. Qed.

(** the smoother's input grows by the current hp value exactly when more than [n+1] values were seen *)
Lemma rfb_fed_snoc n al (h : list R) v :
  rfb_fed n al (h ++ [v]) =
  if Nat.ltb n (length h) then rfb_fed n al h ++ [hpb_at al (h ++ [v]) (length h)] else [].
Proof.
  unfold rfb_fed. rewrite app_length. cbn [length].
  destruct (Nat.ltb_spec n (length h)) as [H|H].
  - replace (length h + 1 - S n)%nat with (S (length h - S n)) by lia.
    rewrite seq_S, map_app. cbn [map]. replace (S n + (length h - S n))%nat with (length h) by lia.
    f_equal. apply map_ext_in. intros t Ht. apply in_seq in Ht. apply hpb_at_app. lia.
  - replace (length h + 1 - S n)%nat with 0%nat by lia. reflexivity.
Qed.

Lemma rfb_fed_short n al (h : list R) : (length h <= S n)%nat -> rfb_fed n al h = [].
Proof. intros H. unfold rfb_fed. replace (length h - S n)%nat with 0%nat by lia. reflexivity. Qed.

Definition rf_inv (n : nat) (al : R) (k : @ss_coef R) (h : list R) (s : @rf_st R) : Prop :=
  rf_i s = length h /\
  ss_inv k (rfb_fed n al h) (rf_ss s) /\
  (rf_hp1 s, rf_hp2 s) = hpb_upto al h (length h) /\
  rf_v1 s = lagx h (length h) 1 /\ rf_v2 s = lagx h (length h) 2.

Lemma lagx_snoc_1 (h : list R) v : lagx (h ++ [v]) (S (length h)) 1 = v.
Proof.
  rewrite lagx_ge by lia. replace (S (length h) - 1)%nat with (length h) by lia.
  rewrite app_nth2 by lia. rewrite Nat.sub_diag. reflexivity.
Qed.
Lemma lagx_snoc_SS (h : list R) v j : lagx (h ++ [v]) (S (length h)) (S (S j)) = lagx h (length h) (S j).
Proof.
  unfold lagx. destruct (Nat.ltb_spec (S (length h)) (S (S j))) as [H|H];
    destruct (Nat.ltb_spec (length h) (S j)) as [H'|H']; try lia; [reflexivity|].
  replace (S (length h) - S (S j))%nat with (length h - S j)%nat by lia. apply app_nth1. lia.
Qed.

Lemma rf_step_inv n al k h s v : rf_inv n al k h s ->
  exists s', rf_step n al k s v = Ok s' /\ rf_inv n al k (h ++ [v]) s'.
Proof.
  intros (Hi & Hss & Hp & H1 & H2). unfold rf_step.
  rewrite two_R, sdiv_two. cbn [bind].
  match goal with |- context [ss_step k (rf_ss s) ?e] => set (hp := e) end.
  assert (Hhp : hpb_upto al (h ++ [v]) (S (length h)) = (hp, rf_hp1 s)).
  { rewrite hpb_upto_S, hpb_upto_app by lia. rewrite <- Hp. cbn [fst snd].
    rewrite lagx_app_last, !lagx_app_S by lia. rewrite <- H1, <- H2, hpb_eq_R. reflexivity. }
  assert (Hat : hpb_at al (h ++ [v]) (length h) = hp) by (unfold hpb_at; rewrite Hhp; reflexivity).
  rewrite Hi.
  assert (Hstep : exists ss', (if Nat.ltb n (length h) then ss_step k (rf_ss s) hp else Ok (rf_ss s)) = Ok ss'
                    /\ ss_inv k (rfb_fed n al (h ++ [v])) ss').
  { rewrite rfb_fed_snoc. destruct (Nat.ltb_spec n (length h)) as [H|H].
    - rewrite Hat. apply ss_step_inv. exact Hss.
    - exists (rf_ss s). split; [reflexivity|]. rewrite rfb_fed_short in Hss by lia. exact Hss. }
  destruct Hstep as [ss' [Hs' Hi']]. rewrite Hs'. cbn [bind].
  eexists; split; [reflexivity|]. unfold rf_inv. cbn [rf_ss rf_i rf_v1 rf_v2 rf_hp1 rf_hp2].
  rewrite app_length. cbn [length]. replace (length h + 1)%nat with (S (length h)) by lia.
  split; [|split; [|split; [|split]]].
  - lia.
  - exact Hi'.
  - symmetry. exact Hhp.
  - symmetry. apply lagx_snoc_1.
  - rewrite lagx_snoc_SS. exact H1.
Qed.

Lemma rf_alpha_R n : (2 <= n)%nat -> @rf_alpha R ROps n = Ok (@hpb_alpha R ROps n).
Proof.
  intros Hn. assert (Hz : INR n <> 0) by (apply INR_pos_neq; lia).
  pose proof (cos_theta_neq n Hn) as Hc. unfold ssb_theta in Hc. cbn [sofnat ROps] in Hc.
  rewrite sdivd_R in Hc by exact Hz.
  unfold rf_alpha, hpb_alpha, ssb_theta, scosd, ssind. cbn [sofnat ROps].
  rewrite sdiv_R_ok by exact Hz. rewrite (sdivd_R (@sofdec R ROps 44422 4) (INR n)) by exact Hz.
  cbn [bind scos ssin ROps].
  rewrite sdiv_R_ok by exact Hc. rewrite sdivd_R by exact Hc. reflexivity.
Qed.

(** C11 (RoofingFilter): the two-pole high-pass with alpha1 = (cos+sin-1)/cos of 4.4422/N, zero
    initial state, whose values at the step indices t > N feed a SuperSmoother(M) *)
Theorem roofing_closed_form n m vs : (2 <= n)%nat -> (1 <= m)%nat ->
  cout (@roofing_core R ROps n m) vs = Ok (@spec_roofing R ROps n m vs).
Proof.
  intros Hn Hm. set (al := @hpb_alpha R ROps n).
  destruct (@crun_inv R (@roofing_core R ROps n m) (fun _ => True)
              (fun h s => fst (fst s) = al /\ snd (fst s) = ssb_coef m /\ rf_inv n al (ssb_coef m) h (snd s))
              (al, ssb_coef m, {| rf_ss := ss_new; rf_i := 0; rf_v1 := 0; rf_v2 := 0; rf_hp1 := 0; rf_hp2 := 0 |}))
    with (vs := vs) as [s [Hr (Ha & Hk & Hi)]].
  - cbn [cnew roofing_core]. destruct (Nat.leb_spec 2 n); [|lia]. cbn [assert bind].
    rewrite rf_alpha_R by exact Hn. rewrite ss_coefs_R by exact Hm. reflexivity.
  - split; [reflexivity|]. split; [reflexivity|]. unfold rf_inv. cbn [rf_ss rf_i rf_v1 rf_v2 rf_hp1 rf_hp2].
    split; [reflexivity|]. split; [apply ss_inv_new|]. repeat split.
  - intros h [[a k] s] v _ _ (Ha & Hk & Hi). cbn [fst snd] in *. subst a k.
    destruct (@rf_step_inv _ _ _ _ _ v Hi) as [s' [Hs' Hi']].
    cbn [cstep roofing_core]. rewrite Hs'. cbn [bind]. eexists; split; [reflexivity|].
    cbn [fst snd]. split; [reflexivity|]. split; [reflexivity | exact Hi'].
  - apply Forall_forall; trivial.
  - unfold cout. rewrite Hr. cbn [bind clast roofing_core]. destruct Hi as (_ & Hss & _).
    rewrite (@ss_lastf_inv _ m _ _ Hss). reflexivity.
Qed.
