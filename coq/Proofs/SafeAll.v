(** C15 / C08 for arbitrary compositions: every view denoted by a descriptor whose parameters pass the
    guards [okd] runs without error on every input stream of the domain, and is ready-monotone. *)
From Coq Require Import List Arith Lia Reals Lra ZArith.
From SF Require Import Res Scalar View Models Spec Core.
From SF.Proofs Require Import Window RBase SafeBase SafeTac SafeA SafeA2 SafeB SafeF SafeV.
Import ListNotations.
Open Scope R_scope.

(** a view that is safe on input domain [D], reports only values in [P], and is ready-monotone *)
Definition Good (a : view R) (D P : R -> Prop) : Prop :=
  exists J : vst a -> Prop, VSafe a D J /\ VOut a J P /\ VReadyMono a D J.

Lemma good_weaken a D (P P' : R -> Prop) : (forall x, P x -> P' x) -> Good a D P -> Good a D P'.
Proof.
  intros H [J [H1 [H2 H3]]]. exists J. split; [exact H1|]. split; [|exact H3].
  intros s y Hj Hl. apply H. exact (H2 s y Hj Hl).
Qed.

Lemma good_echo D : Good (@echo R) D D.
Proof.
  exists (fun o => forall y, o = Some y -> D y). split; [apply echo_safe|]. split; [apply echo_out | apply echo_ready_mono].
Qed.
Lemma good_const c D : Good (@constant R c) D (eq c).
Proof.
  exists (fun _ => True). split; [apply constant_safe|]. split; [|apply constant_ready_mono].
  intros s y _ H. cbn in H. inversion H. reflexivity.
Qed.

(** the generic wrapper case *)
Lemma good_wrap (c : core R) (a : view R) (D P Dc : R -> Prop) (I : nat -> cst c -> Prop) :
  (forall x, P x -> Dc x) -> Safe c Dc I -> CReadyMono c Dc (InvOf c I) ->
  Good a D P -> Good (wrap c a) D anyR.
Proof.
  intros HP Hs Hm [J [H1 [H2 H3]]].
  assert (H2' : VOut a J Dc) by (intros s y Hj Hl; apply HP; exact (H2 s y Hj Hl)).
  exists (@wrapInv R c a J (InvOf c I)). split; [exact (wrap_safe H1 H2' Hs)|]. split; [apply vout_any|].
  exact (wrap_ready_mono' H1 H2' H3 Hs Hm).
Qed.
Lemma good_wrap_any (c : core R) (a : view R) (D P : R -> Prop) (I : nat -> cst c -> Prop) :
  Safe c (fun _ => True) I -> CReadyMono c (fun _ => True) (InvOf c I) ->
  Good a D P -> Good (wrap c a) D anyR.
Proof. intros Hs Hm Ha. apply good_wrap with (P := P) (Dc := fun _ => True) (I := I); auto. Qed.

Lemma good_binop f (a b : view R) D (Pa Pb : R -> Prop) :
  (forall x y, Pa x -> Pb y -> exists r, f x y = Ok r) ->
  Good a D Pa -> Good b D Pb -> Good (binop f a b) D anyR.
Proof.
  intros Hf [Ja [A1 [A2 A3]]] [Jb [B1 [B2 B3]]]. exists (@pairInv R a b Ja Jb).
  split; [exact (@binop_safe R f a b D Ja Jb Pa Pb A1 B1 A2 B2 Hf)|]. split; [apply vout_any|].
  exact (@binop_ready_mono R f a b D Ja Jb Pa Pb A1 B1 A2 B2 Hf A3 B3).
Qed.
Lemma good_tanh (a : view R) D P : Good a D P -> Good (@vtanh R ROps a) D anyR.
Proof.
  intros [J [A1 [A2 A3]]]. exists J. split; [exact (vtanh_safe A1)|]. split; [apply vout_any|].
  exact (vtanh_ready_mono A1 A3).
Qed.

(* ------------------------------------------------------------------------------------------ *)
From SF.Proofs Require Import SafeC SafeD SafeE.

(** what a descriptor is known to report: the raw inputs for Echo, the constant, else anything *)
Definition outp (D : R -> Prop) (d : desc R) : R -> Prop :=
  match d with DEcho | DProbe _ => D | DConst c => eq c | _ => anyR end.

(** the guards: the window lengths the constructors accept (and for which the views are defined),
    positive values into Drawdown / LnReturn, a non-zero divisor for Divide *)
Fixpoint okd (D : R -> Prop) (d : desc R) : Prop :=
  match d with
  | DEcho | DProbe _ | DConst _ => True
  | DAdd a b | DSub a b | DMul a b => okd D a /\ okd D b
  | DDiv a b => okd D a /\ okd D b /\ (forall y, outp D b y -> y <> 0)
  | DTanh a | DGte _ a | DLte _ a | DWRolling a | DWRollingMean a
  | DEma _ a | DEmaAlpha _ _ a | DLaguerre _ a | DLrsi _ a | DCog _ a | DNet _ a => okd D a
  | DDrawdown a | DLnReturn a => okd D a /\ (forall x, outp D a x -> 0 < x)
  | DSma n a | DCumulative n a | DMin n a | DMax n a | DRoc n a | DWelford n a | DWelfordMean n a
  | DWelfordVar n a | DVst n a | DVsct n a | DHln n a | DEntropy n a | DCti n a | DRsi n a | DMyRsi n a
  | DAlma n a | DSs n a | DTrendFlex n a | DReFlex n a => (1 <= n)%nat /\ okd D a
  | DAlmaCustom n sg off a => (1 <= n)%nat /\ sg <> 0 /\ okd D a
  | DCyber n a => (3 <= n)%nat /\ okd D a
  | DRoofing n m a => (2 <= n)%nat /\ (1 <= m)%nat /\ okd D a
  | DPfe n a ma => (3 <= n)%nat /\ okd D a /\ okd anyR ma
  | DEft n a ma => (2 <= n)%nat /\ okd D a /\ okd anyR ma
  end.

(* ---------------------------------------------------------------- alma with custom sigma / offset *)
Definition alma_custom_I (n : nat) (sigma : R) (k : nat) (st : R * @alma_st R) : Prop :=
  fst st = INR n / sigma /\
  length (al_qv (snd st)) = Nat.min n k /\ length (al_qw (snd st)) = Nat.min n k /\
  length (al_qo (snd st)) = Nat.min n k /\
  Forall (fun w => 0 < w) (al_qw (snd st)) /\ al_cw (snd st) = rsum (al_qw (snd st)).

Lemma alma_custom_safe n sigma offset : (1 <= n)%nat -> sigma <> 0 ->
  Safe (@alma_core_custom R ROps n sigma offset) (fun _ => True) (alma_custom_I n sigma).
Proof.
  intros Hn Hsg. constructor.
  - unfold alma_core_custom. cbn [cnew].
    rewrite sdiv_R_ok by exact Hsg. cbn [bind].
    eexists. split; [reflexivity|]. unfold alma_custom_I. cbn [fst snd al_qv al_qw al_qo al_cw length rsum].
    repeat split; try lia. constructor.
  - intros k st v [Hs [Hv [Hw [Ho [Hp Hc]]]]] _. unfold alma_core_custom. cbn [cstep].
    assert (Hs0 : fst st <> 0).
    { rewrite Hs. pose proof (INR_pos' n Hn). intros H0. unfold Rdiv in H0.
      apply Rmult_integral in H0. destruct H0 as [H0|H0]; [lra|]. revert H0. apply Rinv_neq_0_compat. exact Hsg. }
    destruct (alma_step_ok n k (smul offset (sadd (sofnat n) s1)) (fst st) (snd st) v Hn Hs0 Hv Hw Ho Hp Hc)
      as [st' [Hst [Hv' [Hw' [Ho' [Hp' [Hc' _]]]]]]].
    rewrite Hst. cbn [bind]. eexists. split; [reflexivity|]. unfold alma_custom_I. cbn [fst snd].
    repeat split; assumption.
  - intros k st _. unfold alma_core_custom. cbn [clast]. eauto.
Qed.
Lemma alma_custom_ready n sigma offset : (1 <= n)%nat ->
  ReadyAt (@alma_core_custom R ROps n sigma offset) (alma_custom_I n sigma) 1.
Proof.
  intros Hn k st [Hs [Hv [Hw [Ho [Hp Hc]]]]]. unfold alma_core_custom. cbn [clast]. split; intros Hk.
  - destruct (al_qo (snd st)) as [|x r]; [reflexivity|]. cbn [length] in Ho. lia.
  - destruct (@last_opt_nonempty R (al_qo (snd st))) as [y Hy].
    + intros Hnil. rewrite Hnil in Ho. cbn [length] in Ho. lia.
    + rewrite Hy. eauto.
Qed.
(** C15 / C08 Alma with custom parameters: any offset, any non-zero sigma *)
Theorem safe_alma_custom n sigma offset vs : (1 <= n)%nat -> sigma <> 0 ->
  exists s o, crun (@alma_core_custom R ROps n sigma offset) vs = Ok s /\ clast (@alma_core_custom R ROps n sigma offset) s = Ok o.
Proof. intros Hn Hs. apply (safe_run (alma_custom_safe n sigma offset Hn Hs)). apply trueD. Qed.
Theorem ready_mono_alma_custom n sigma offset : (1 <= n)%nat -> sigma <> 0 ->
  CReadyMono (@alma_core_custom R ROps n sigma offset) (fun _ => True)
    (InvOf (@alma_core_custom R ROps n sigma offset) (alma_custom_I n sigma)).
Proof. intros Hn Hs. exact (ready_at_mono (alma_custom_safe n sigma offset Hn Hs) (@alma_custom_ready n sigma offset Hn)). Qed.

(* ---------------------------------------------------------------- every descriptor *)
Ltac wrap_any Hs Hm IH := exact (good_wrap_any _ _ _ _ _ Hs Hm IH).

(** C15 + C08 for every composition of catalogue views: safe on the domain, ready-monotone *)
Theorem good_denote : forall (d : desc R) (D : R -> Prop), okd D d -> Good (@denote R ROps d) D (outp D d).
Proof.
  induction d; intros D H; cbn [denote okd outp] in *.
  - (* Echo *) apply good_echo.
  - (* Probe *) apply good_echo.
  - (* Const *) apply good_const.
  - (* Add *) destruct H as [Ha Hb]. unfold vadd. apply good_binop with (Pa := outp D d1) (Pb := outp D d2); auto. intros; eauto.
  - (* Sub *) destruct H as [Ha Hb]. unfold vsub. apply good_binop with (Pa := outp D d1) (Pb := outp D d2); auto. intros; eauto.
  - (* Mul *) destruct H as [Ha Hb]. unfold vmul. apply good_binop with (Pa := outp D d1) (Pb := outp D d2); auto. intros; eauto.
  - (* Div *) destruct H as [Ha [Hb Hz]]. unfold vdiv. apply good_binop with (Pa := outp D d1) (Pb := outp D d2); auto.
    intros x y _ Hy. rewrite sdiv_R_ok by (apply Hz; exact Hy). eauto.
  - (* Tanh *) apply good_tanh with (P := outp D d). auto.
  - (* Gte *) wrap_any (gte_safe c) (ready_mono_gte c) (IHd D H).
  - (* Lte *) wrap_any (lte_safe c) (ready_mono_lte c) (IHd D H).
  - (* Drawdown *) destruct H as [Ha Hp].
    exact (@good_wrap _ _ D (outp D d) pos _ Hp drawdown_safe ready_mono_drawdown (IHd D Ha)).
  - (* LnReturn *) destruct H as [Ha Hp].
    exact (@good_wrap _ _ D (outp D d) pos _ Hp lnret_safe ready_mono_lnret (IHd D Ha)).
  - (* WRolling *) wrap_any wrolling_safe ready_mono_wrolling (IHd D H).
  - (* WRollingMean *)
    wrap_any wrolling_mean_safe (ready_at_mono wrolling_mean_safe wrolling_mean_ready) (IHd D H).
  - (* Sma *) destruct H as [Hn Ha]. wrap_any (sma_safe n Hn) (ready_mono_sma n Hn) (IHd D Ha).
  - (* Ema *) wrap_any (ema_alpha_safe n (sofdec 2 0)) (ready_mono_ema n) (IHd D H).
  - (* EmaAlpha *) wrap_any (ema_alpha_safe n alpha) (ready_at_mono (ema_alpha_safe n alpha) (@ema_alpha_ready n alpha)) (IHd D H).
  - (* Cumulative *) destruct H as [Hn Ha]. wrap_any (cum_safe n Hn) (ready_mono_cumulative n Hn) (IHd D Ha).
  - (* Min *) destruct H as [Hn Ha]. wrap_any (min_safe n Hn) (ready_mono_min n Hn) (IHd D Ha).
  - (* Max *) destruct H as [Hn Ha]. wrap_any (max_safe n Hn) (ready_mono_max n Hn) (IHd D Ha).
  - (* Roc *) destruct H as [Hn Ha]. wrap_any (roc_safe n Hn) (ready_mono_roc n Hn) (IHd D Ha).
  - (* Welford *) destruct H as [Hn Ha]. wrap_any (welford_safe n Hn) (ready_mono_welford n Hn) (IHd D Ha).
  - (* WelfordMean *) destruct H as [Hn Ha]. wrap_any (welford_mean_safe n Hn) (ready_mono_welford_mean n Hn) (IHd D Ha).
  - (* WelfordVar *) destruct H as [Hn Ha]. wrap_any (welford_var_safe n Hn) (ready_mono_welford_var n Hn) (IHd D Ha).
  - (* Vst *) destruct H as [Hn Ha]. wrap_any (vst_safe n Hn) (ready_mono_vst n Hn) (IHd D Ha).
  - (* Vsct *) destruct H as [Hn Ha]. wrap_any (vsct_safe n Hn) (ready_mono_vsct n Hn) (IHd D Ha).
  - (* Hln *) destruct H as [Hn Ha]. wrap_any (hln_safe n Hn) (ready_mono_hln n Hn) (IHd D Ha).
  - (* Entropy *) destruct H as [Hn Ha]. wrap_any (entropy_safe n Hn) (ready_mono_entropy n Hn) (IHd D Ha).
  - (* Cog *) wrap_any (cog_safe n) (ready_mono_cog n) (IHd D H).
  - (* Cti *) destruct H as [Hn Ha]. wrap_any (cti_safe n Hn) (ready_mono_cti n Hn) (IHd D Ha).
  - (* Net *) wrap_any (net_safe n) (ready_mono_net n) (IHd D H).
  - (* Rsi *) destruct H as [Hn Ha]. wrap_any (rsi_safe n Hn) (ready_mono_rsi n Hn) (IHd D Ha).
  - (* MyRsi *) destruct H as [Hn Ha]. wrap_any (myrsi_safe n Hn) (ready_mono_myrsi n Hn) (IHd D Ha).
  - (* Alma *) destruct H as [Hn Ha]. wrap_any (alma_safe n Hn) (ready_mono_alma n Hn) (IHd D Ha).
  - (* AlmaCustom *) destruct H as [Hn [Hs Ha]].
    wrap_any (alma_custom_safe n sigma offset Hn Hs) (ready_mono_alma_custom n sigma offset Hn Hs) (IHd D Ha).
  - (* Pfe *) destruct H as [Hn [Ha Hm]]. destruct (IHd2 anyR Hm) as [J [M1 [M2 M3]]].
    wrap_any (pfe_safe (denote d2) J M1 n Hn) (ready_mono_pfe (denote d2) J M1 n Hn M3) (IHd1 D Ha).
  - (* Cyber *) destruct H as [Hn Ha]. wrap_any (cyber_safe n Hn) (ready_mono_cyber n Hn) (IHd D Ha).
  - (* Ss *) destruct H as [Hn Ha]. wrap_any (ss_safe n Hn) (ready_mono_ss n Hn) (IHd D Ha).
  - (* Roofing *) destruct H as [Hn [Hm Ha]]. wrap_any (roofing_safe n m Hn Hm) (ready_mono_roofing n m Hn Hm) (IHd D Ha).
  - (* TrendFlex *) destruct H as [Hn Ha]. wrap_any (trendflex_safe n Hn) (ready_mono_trendflex n Hn) (IHd D Ha).
  - (* ReFlex *) destruct H as [Hn Ha]. wrap_any (reflex_safe n Hn) (ready_mono_reflex n Hn) (IHd D Ha).
  - (* Laguerre *) wrap_any (laguerre_safe g) (ready_mono_laguerre g) (IHd D H).
  - (* Lrsi *) wrap_any (lrsi_safe n) (ready_mono_lrsi n) (IHd D H).
  - (* Eft *) destruct H as [Hn [Ha Hm]]. destruct (IHd2 anyR Hm) as [J [M1 [M2 M3]]].
    wrap_any (eft_safe (denote d2) J M1 n Hn) (ready_mono_eft (denote d2) J M1 n Hn) (IHd1 D Ha).
Qed.

(** C15, as a statement about runs: any stream of the domain, interleaving update and last after each
    value, completes without error *)
Theorem no_panic (d : desc R) (D : R -> Prop) xs : okd D d -> Forall D xs ->
  exists outs, mrun (@denote R ROps d) xs = Ok outs.
Proof.
  intros Hd HD. destruct (good_denote d D Hd) as [J [H1 _]]. exact (vsafe_mrun H1 HD).
Qed.

(** C08, as a statement about runs: in the list of answers after each update, once a value has been
    reported every later answer is a value *)
Fixpoint ready_mono_list {A} (os : list (option A)) : Prop :=
  match os with
  | [] => True
  | None :: r => ready_mono_list r
  | Some _ :: r => Forall (fun o => o <> None) r
  end.

Lemma mrun_from_stays_ready (a : view R) D J : VSafe a D J -> VReadyMono a D J ->
  forall xs s y outs, J s -> Forall D xs -> vlast a s = Ok (Some y) -> mrun_from a s xs = Ok outs ->
  Forall (fun o => o <> None) outs.
Proof.
  intros Ha Hm xs. induction xs as [|x xs IH]; intros s y outs Hj HD Hl Hr; cbn in Hr.
  - inversion Hr; subst. constructor.
  - inversion HD as [|x' xs' Hx HD']; subst.
    destruct (vs_upd Ha s x Hj Hx) as [s' [Hu Hj']]. rewrite Hu in Hr. cbn [bind] in Hr.
    destruct (Hm s x s' y Hj Hx Hl Hu) as [z Hz]. rewrite Hz in Hr. cbn [bind] in Hr.
    destruct (mrun_from a s' xs) as [r|e] eqn:Er; cbn [bind] in Hr; [|discriminate].
    inversion Hr; subst. constructor; [discriminate|]. exact (IH s' z r Hj' HD' Hz Er).
Qed.
Lemma mrun_from_ready_mono (a : view R) D J : VSafe a D J -> VReadyMono a D J ->
  forall xs s outs, J s -> Forall D xs -> mrun_from a s xs = Ok outs -> ready_mono_list outs.
Proof.
  intros Ha Hm xs. induction xs as [|x xs IH]; intros s outs Hj HD Hr; cbn in Hr.
  - inversion Hr; subst. exact I.
  - inversion HD as [|x' xs' Hx HD']; subst.
    destruct (vs_upd Ha s x Hj Hx) as [s' [Hu Hj']]. rewrite Hu in Hr. cbn [bind] in Hr.
    destruct (vlast a s') as [o|e] eqn:El; cbn [bind] in Hr; [|discriminate].
    destruct (mrun_from a s' xs) as [r|e] eqn:Er; cbn [bind] in Hr; [|discriminate].
    inversion Hr; subst. destruct o as [z|]; cbn [ready_mono_list].
    + exact (mrun_from_stays_ready a D J Ha Hm xs s' z r Hj' HD' El Er).
    + exact (IH s' r Hj' HD' Er).
Qed.

(** C08: readiness never reverts, for every composition *)
Theorem readiness_never_reverts (d : desc R) (D : R -> Prop) xs outs : okd D d -> Forall D xs ->
  mrun (@denote R ROps d) xs = Ok outs -> ready_mono_list outs.
Proof.
  intros Hd HD Hr. destruct (good_denote d D Hd) as [J [H1 [_ H3]]].
  unfold mrun in Hr. destruct (vs_new H1) as [s0 [Hn Hj]]. rewrite Hn in Hr. cbn [bind] in Hr.
  exact (mrun_from_ready_mono _ D J H1 H3 xs s0 outs Hj HD Hr).
Qed.

(** the hypotheses are satisfiable: a deep chain with a binary node and an owned moving average *)
Example okd_example :
  okd anyR (DEft 5 (DAdd (DSma 3 (DRsi 2 DEcho)) (DRoofing 2 1 (DCyber 3 DEcho))) (DEma 4 (DPfe 3 DEcho (DSs 1 DEcho)))).
Proof. cbn. repeat split; lia. Qed.
Example okd_example_div : okd pos (DDiv (DLnReturn DEcho) DEcho).
Proof. cbn. unfold pos. repeat split; intros; lra. Qed.

Print Assumptions good_denote.
Print Assumptions no_panic.
Print Assumptions readiness_never_reverts.
