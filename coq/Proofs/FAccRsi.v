(** C16 at f64 for Rsi: the sums are recomputed from the window on every update, every term is non-negative, so the
    rounding errors are RELATIVE and bounded by the number of operations: on finite inputs, with changes in the
    window that neither overflow nor underflow, the answer is within (2n + 10) * 100 * 2^-53 of the exact answer, for
    every length of the stream. *)
From Coq Require Import List Arith Lia Reals Lra ZArith Floats Bool.
From SF Require Import Res Scalar View Models Core Spec FloatOps SpecRsi SpecFRange SpecFAcc.
From SF.Proofs Require Import Window RBase FltErr FltBridge Flt2P Flt2B64 Flt2Prim BridgeOps FRangeBase FRangeMy FRangeRsi
  FAccBase RsiP.
From Flocq Require Import Core BinarySingleNaN.
Import ListNotations.
Open Scope R_scope.

Local Notation F := PrimFloat.float.
Local Notation pinf := PrimFloat.infinity.
Local Notation fzero := PrimFloat.zero.
Local Notation fone := PrimFloat.one.
Local Notation fin := (fun x : F => ffinite x = true).
Local Notation f100 := (f_ofdec 100 0).
Local Notation cf := (@changes_from R ROps).
Local Notation chg := (@changes R ROps).
Local Notation gof := (@gain_of R ROps).
Local Notation lof := (@loss_of R ROps).
Local Notation u := b64_u.

(** * Generic part (any scalar): what the state holds *)
Section Gen.
Context {T : Type} {OT : Ops T}.

(** the answer recomputed from the window [q] and the value [oldref] preceding it *)
Definition rsi_block (n : nat) (q : list T) (oldref : T) : res T :=
  match rsi_sums (sofnat n) q oldref s0 s0 with
  | Ok (gain, loss) =>
      if seqb loss s0 then Ok (sofdec 100 0)
      else match sdiv gain loss with
           | Ok rs => match sdiv (sofdec 100 0) (sadd s1 rs) with
                      | Ok d => Ok (ssub (sofdec 100 0) d)
                      | Err e => Err e
                      end
           | Err e => Err e
           end
  | Err e => Err e
  end.

Definition rsi_ginv (n : nat) (s : @rsi_st T) : Prop :=
  ((length (rsi_q s) < n)%nat -> rsi_out s = None) /\
  ((n <= length (rsi_q s))%nat -> exists o, rsi_block n (rsi_q s) (rsi_oldref s) = Ok o /\ rsi_out s = Some o).

(** queue and reference value after a step *)
Definition rsi_next (n : nat) (q : list T) (oldref v : T) : T * list T :=
  if Nat.leb n (length q) then (hd v q, tl q ++ [v])
  else (match q with [] => v | _ => oldref end, q ++ [v]).

Lemma rsi_gstep n s v s' : (1 <= n)%nat -> rsi_ginv n s -> rsi_step n s v = Ok s' ->
  rsi_ginv n s' /\ rsi_oldref s' = fst (rsi_next n (rsi_q s) (rsi_oldref s) v)
  /\ rsi_q s' = snd (rsi_next n (rsi_q s) (rsi_oldref s) v).
Proof.
  intros Hn [HN HS]. unfold rsi_step, rsi_next. cbv zeta.
  assert (HB : forall (o' : T) (q' : list T),
    (length q' < n -> rsi_out s = None)%nat ->
    (if Nat.ltb (length q') n
     then Ok {| rsi_gain := rsi_gain s; rsi_loss := rsi_loss s; rsi_oldref := o'; rsi_lastval := v; rsi_q := q'; rsi_out := rsi_out s |}
     else do '(gain, loss) <- rsi_sums (sofnat n) q' o' s0 s0;
          do out <- (if seqb loss s0 then Ok (sofdec 100 0)
                     else do rs <- sdiv gain loss; do d <- sdiv (sofdec 100 0) (sadd s1 rs); Ok (ssub (sofdec 100 0) d));
          Ok {| rsi_gain := gain; rsi_loss := loss; rsi_oldref := o'; rsi_lastval := v; rsi_q := q'; rsi_out := Some out |}) = Ok s' ->
    rsi_ginv n s' /\ rsi_oldref s' = o' /\ rsi_q s' = q').
  { intros o' q' Hnone. destruct (Nat.ltb_spec (length q') n) as [Hl|Hl].
    - intros H. inversion H; subst s'. unfold rsi_ginv. cbn [rsi_q rsi_oldref rsi_out].
      split; [|split; reflexivity]. split; [intros _; apply Hnone; exact Hl | intros H'; lia].
    - unfold rsi_ginv, rsi_block.
      destruct (rsi_sums (sofnat n) q' o' s0 s0) as [[g l]|e] eqn:Es; cbn [bind]; [|discriminate].
      destruct (seqb l s0) eqn:El.
      + cbn [bind]. intros H. inversion H; subst s'. cbn [rsi_q rsi_oldref rsi_out].
        split; [|split; reflexivity]. split; [intros H'; lia | intros _]. rewrite Es, El. eexists; split; reflexivity.
      + destruct (sdiv g l) as [rs|e] eqn:E1; cbn [bind]; [|discriminate].
        destruct (sdiv (sofdec 100 0) (sadd s1 rs)) as [d|e] eqn:E2; cbn [bind]; [|discriminate].
        intros H. inversion H; subst s'. cbn [rsi_q rsi_oldref rsi_out].
        split; [|split; reflexivity]. split; [intros H'; lia | intros _]. rewrite Es, El, E1, E2. eexists; split; reflexivity. }
  destruct (Nat.leb_spec n (length (rsi_q s))) as [Hl|Hl].
  - destruct (rsi_q s) as [|old r] eqn:Eq; cbn [pop_front bind hd tl fst snd]; [discriminate|].
    apply HB. rewrite app_length. cbn [length] in *. intros H'. lia.
  - cbn [bind fst snd]. apply HB. intros _. apply HN. exact Hl.
Qed.
End Gen.

Lemma rsi_ginv_run {T} {OT : Ops T} n (vs : list T) s : (1 <= n)%nat ->
  crun (@rsi_core T OT n) vs = Ok s -> rsi_ginv n s.
Proof.
  intros Hn. apply (@crun_pres T (@rsi_core T OT n) (fun _ => True) (rsi_ginv n)
    {| rsi_gain := s0; rsi_loss := s0; rsi_oldref := s0; rsi_lastval := s0; rsi_q := []; rsi_out := None |}).
  - reflexivity.
  - split; cbn [rsi_q rsi_out length]; [reflexivity | lia].
  - intros s1 v s2 _ Hi Hs. exact (proj1 (rsi_gstep n s1 v s2 Hn Hi Hs)).
  - apply Forall_forall. trivial.
Qed.

(** two runs in lockstep *)
Lemma crun_rel2 {A B} (ca : core A) (cb : core B) (f : A -> B) (Rel : cst ca -> cst cb -> Prop) sa0 sb0 :
  cnew ca = Ok sa0 -> cnew cb = Ok sb0 -> Rel sa0 sb0 ->
  (forall sa sb v sa' sb', crun ca [] = crun ca [] -> Rel sa sb -> cstep ca sa v = Ok sa' -> cstep cb sb (f v) = Ok sb' -> Rel sa' sb') ->
  forall vs sa sb, crun ca vs = Ok sa -> crun cb (map f vs) = Ok sb -> Rel sa sb.
Proof.
  intros Ha Hb H0 Hstep vs. induction vs as [|v vs IH] using rev_ind; intros sa sb Hra Hrb.
  - unfold crun in Hra, Hrb. cbn [map] in Hrb. rewrite Ha in Hra. rewrite Hb in Hrb. cbn in Hra, Hrb.
    inversion Hra; inversion Hrb; subst. exact H0.
  - rewrite map_app in Hrb. cbn [map] in Hrb. rewrite crun_snoc in Hra, Hrb.
    destruct (crun ca vs) as [s1|e]; [|discriminate]. destruct (crun cb (map f vs)) as [t1|e]; [|discriminate].
    cbn [bind] in Hra, Hrb. exact (Hstep s1 t1 v sa sb eq_refl (IH s1 t1 eq_refl eq_refl) Hra Hrb).
Qed.

(** the float state holds the window and the reference value of the exact run, value for value *)
Lemma rsi_struct n fs sf sr : (1 <= n)%nat ->
  crun (@rsi_core F FOps n) fs = Ok sf -> crun (@rsi_core R ROps n) (map f2r fs) = Ok sr ->
  rsi_q sr = map f2r (rsi_q sf) /\ rsi_oldref sr = f2r (rsi_oldref sf).
Proof.
  intros Hn Hf Hr.
  assert (H : rsi_ginv n sf /\ rsi_ginv n sr /\ rsi_q sr = map f2r (rsi_q sf) /\ rsi_oldref sr = f2r (rsi_oldref sf)).
  2:{ tauto. }
  revert Hf Hr.
  apply (@crun_rel2 F R (@rsi_core F FOps n) (@rsi_core R ROps n) f2r
           (fun sf sr => rsi_ginv n sf /\ rsi_ginv n sr /\ rsi_q sr = map f2r (rsi_q sf) /\ rsi_oldref sr = f2r (rsi_oldref sf))
           {| rsi_gain := s0; rsi_loss := s0; rsi_oldref := s0; rsi_lastval := s0; rsi_q := []; rsi_out := None |}
           {| rsi_gain := s0; rsi_loss := s0; rsi_oldref := s0; rsi_lastval := s0; rsi_q := []; rsi_out := None |}).
  - reflexivity.
  - reflexivity.
  - repeat split; cbn [rsi_q rsi_out rsi_oldref length map]; try reflexivity; try lia.
  - intros sa sb v sa' sb' _ (Ga & Gb & Eq & Eo) Sa Sb.
    destruct (rsi_gstep n sa v sa' Hn Ga Sa) as (Ga' & Eo1 & Eq1).
    destruct (rsi_gstep n sb (f2r v) sb' Hn Gb Sb) as (Gb' & Eo2 & Eq2).
    split; [exact Ga'|]. split; [exact Gb'|]. rewrite Eo1, Eq1, Eo2, Eq2, Eq, Eo. unfold rsi_next. rewrite map_length.
    destruct (Nat.leb n (length (rsi_q sa))); cbn [fst snd].
    + destruct (rsi_q sa); cbn [map hd tl]; rewrite ?map_app; split; reflexivity.
    + destruct (rsi_q sa); cbn [map]; rewrite ?map_app; split; reflexivity.
Qed.

(** * Relative closeness with a real-valued operation count:
    [near k a x]: [x (1 - k u) <= a] and [a (1 - k u) <= x]   (for x >= 0, k u <= 1) *)
Definition near (k a x : R) : Prop := x * (1 - k * u) <= a /\ a * (1 - k * u) <= x.

Lemma u_small : 0 < u <= / 1000000.
Proof. rewrite b64_u_val. lra. Qed.

Lemma near_nonneg k a x : 0 <= x -> k * u <= 1 -> near k a x -> 0 <= a.
Proof.
  intros Hx Hk [H1 _]. assert (0 <= x * (1 - k * u)) by (apply Rmult_le_pos; lra). lra.
Qed.
Lemma near_refl k x : 0 <= x -> 0 <= k -> near k x x.
Proof.
  intros Hx Hk. pose proof u_small. assert (0 <= x * (k * u)) by (apply Rmult_le_pos; [lra | apply Rmult_le_pos; lra]).
  unfold near. split; lra.
Qed.
Lemma near_mono k k' a x : 0 <= x -> k <= k' -> k' * u <= 1 -> near k a x -> near k' a x.
Proof.
  intros Hx Hkk Hk' Hn. pose proof u_small as Hu.
  assert (Hku : k * u <= k' * u) by (apply Rmult_le_compat_r; lra).
  assert (Ha : 0 <= a) by (apply (near_nonneg k a x); [exact Hx | lra | exact Hn]).
  destruct Hn as [H1 H2]. split.
  - apply Rle_trans with (x * (1 - k * u)); [|exact H1]. apply Rmult_le_compat_l; lra.
  - apply Rle_trans with (a * (1 - k * u)); [|exact H2]. apply Rmult_le_compat_l; lra.
Qed.
Lemma near_add k a b x y : near k a x -> near k b y -> near k (a + b) (x + y).
Proof. intros [H1 H2] [H3 H4]. unfold near. rewrite !Rmult_plus_distr_r. lra. Qed.
Lemma near_scale k a x w : 0 <= w -> near k a x -> near k (a * w) (x * w).
Proof.
  intros Hw [H1 H2]. unfold near. split.
  - replace (x * w * (1 - k * u)) with (x * (1 - k * u) * w) by ring. apply Rmult_le_compat_r; assumption.
  - replace (a * w * (1 - k * u)) with (a * (1 - k * u) * w) by ring. apply Rmult_le_compat_r; assumption.
Qed.
(** one more rounding *)
Lemma near_round k c a x d : 0 <= x -> 0 <= k -> 0 <= c -> (k + c) * u <= 1 -> near k a x -> Rabs d <= c * u ->
  near (k + c) (a * (1 + d)) x.
Proof.
  intros Hx Hk Hc Hkc Hn Hd. pose proof u_small as Hu. apply Rabs_le_inv in Hd.
  assert (Hcu : 0 <= c * u) by (apply Rmult_le_pos; lra).
  assert (Hku : 0 <= k * u) by (apply Rmult_le_pos; lra).
  assert (Ha : 0 <= a) by (apply (near_nonneg k a x); [exact Hx | lra | exact Hn]).
  destruct Hn as [H1 H2]. unfold near. set (ku := k * u) in *. set (cu := c * u) in *.
  replace ((k + c) * u) with (ku + cu) in * by (unfold ku, cu; ring). clearbody ku cu.
  split.
  - apply Rle_trans with (x * (1 - ku) * (1 - cu)).
    + assert (0 <= x * (ku * cu)) by (apply Rmult_le_pos; [lra | apply Rmult_le_pos; lra]). lra.
    + apply Rle_trans with (a * (1 - cu)); [apply Rmult_le_compat_r; lra | apply Rmult_le_compat_l; lra].
  - apply Rle_trans with (a * (1 + cu) * (1 - (ku + cu))).
    + apply Rmult_le_compat_r; [lra|]. apply Rmult_le_compat_l; lra.
    + apply Rle_trans with (a * (1 - ku)); [|exact H2].
      assert (0 <= a * (cu * (ku + cu))) by (apply Rmult_le_pos; [lra | apply Rmult_le_pos; lra]). lra.
Qed.
(** quotient *)
Lemma near_quot k a b x y : 0 <= x -> 0 < y -> 0 < b -> 0 <= k -> 2 * k * u <= 1 ->
  near k a x -> near k b y -> near (2 * k) (a / b) (x / y).
Proof.
  intros Hx Hy Hb Hk Hku Ha Hbn. pose proof u_small as Hu.
  assert (Ha0 : 0 <= a) by (apply (near_nonneg k a x); [exact Hx | lra | exact Ha]).
  destruct Ha as [A1 A2]. destruct Hbn as [B1 B2].
  assert (Hku0 : 0 <= k * u) by (apply Rmult_le_pos; lra).
  unfold near. set (ku := k * u) in *. replace (2 * k * u) with (2 * ku) in * by (unfold ku; ring). clearbody ku.
  assert (Hsq : 1 - 2 * ku <= (1 - ku) * (1 - ku)) by (assert (0 <= ku * ku) by (apply Rmult_le_pos; lra); lra).
  assert (Hq : 0 <= a / b) by (apply Rmult_le_pos; [lra | apply Rlt_le, Rinv_0_lt_compat; lra]).
  assert (Hr : 0 <= x / y) by (apply Rmult_le_pos; [lra | apply Rlt_le, Rinv_0_lt_compat; lra]).
  assert (Ea : a = a / b * b) by (field; lra). assert (Ex : x = x / y * y) by (field; lra).
  set (q := a / b) in *. set (r := x / y) in *.
  split.
  - (* r (1-ku)^2 <= q *)
    apply Rle_trans with (r * ((1 - ku) * (1 - ku))); [apply Rmult_le_compat_l; lra|].
    apply (Rmult_le_reg_r b); [exact Hb|]. rewrite <- Ea.
    apply Rle_trans with (x * (1 - ku)); [|exact A1].
    rewrite Ex. replace (r * ((1 - ku) * (1 - ku)) * b) with (r * (1 - ku) * (b * (1 - ku))) by ring.
    replace (r * y * (1 - ku)) with (r * (1 - ku) * y) by ring.
    apply Rmult_le_compat_l; [apply Rmult_le_pos; lra | exact B2].
  - apply Rle_trans with (q * ((1 - ku) * (1 - ku))); [apply Rmult_le_compat_l; lra|].
    apply (Rmult_le_reg_r y); [exact Hy|]. rewrite <- Ex.
    apply Rle_trans with (a * (1 - ku)); [|exact A2].
    rewrite Ea. replace (q * ((1 - ku) * (1 - ku)) * y) with (q * (1 - ku) * (y * (1 - ku))) by ring.
    replace (q * b * (1 - ku)) with (q * (1 - ku) * b) by ring.
    apply Rmult_le_compat_l; [apply Rmult_le_pos; lra | exact B1].
Qed.
(** reciprocal times a constant *)
Lemma near_inv k c b y : 0 <= c -> 0 < y -> 0 < b -> near k b y -> near k (c / b) (c / y).
Proof.
  intros Hc Hy Hb [B1 B2]. split.
  - apply (Rmult_le_reg_r (b * y)); [apply Rmult_lt_0_compat; assumption|].
    replace (c / y * (1 - k * u) * (b * y)) with (c * (b * (1 - k * u))) by (field; lra).
    replace (c / b * (b * y)) with (c * y) by (field; lra). apply Rmult_le_compat_l; assumption.
  - apply (Rmult_le_reg_r (b * y)); [apply Rmult_lt_0_compat; assumption|].
    replace (c / b * (1 - k * u) * (b * y)) with (c * (y * (1 - k * u))) by (field; lra).
    replace (c / y * (b * y)) with (c * b) by (field; lra). apply Rmult_le_compat_l; assumption.
Qed.
(** absolute distance *)
Lemma near_abs k a x M : 0 <= x <= M -> 0 <= a <= M -> 0 <= k -> near k a x -> Rabs (a - x) <= k * u * M.
Proof.
  intros Hx Ha Hk [H1 H2]. pose proof u_small as Hu.
  assert (Hku0 : 0 <= k * u) by (apply Rmult_le_pos; lra).
  assert (x * (k * u) <= M * (k * u)) by (apply Rmult_le_compat_r; lra).
  assert (a * (k * u) <= M * (k * u)) by (apply Rmult_le_compat_r; lra).
  apply Rabs_le. lra.
Qed.

(** * The two sums *)
Definition okd (n : nat) (d : R) : Prop :=
  (d = 0 \/ bpow radix2 (-1021) * INR n <= Rabs d) /\ Rabs d <= bpow radix2 1022.

Lemma B1023 : bpow radix2 1023 = 2 * bpow radix2 1022.
Proof. change 1023%Z with (1 + 1022)%Z. rewrite bpow_plus. reflexivity. Qed.
Lemma B1023_lt : bpow radix2 1023 < BIG. Proof. apply bpow_lt. lia. Qed.
Lemma fmt_bpow e : (-1074 <= e)%Z -> b64_format (bpow radix2 e).
Proof. intros H. apply generic_format_bpow. unfold b64_exp, FLT_exp. lia. Qed.

(** a float in [0, 2^1023] obtained by rounding is finite *)
Lemma rnd_fin_range r : 0 <= r <= bpow radix2 1023 -> 0 <= b64_round r < BIG.
Proof.
  intros [H0 H1]. pose proof B1023_lt. split; [apply rnd_ge; [exact b64_format_0 | exact H0]|].
  apply Rle_lt_trans with (bpow radix2 1023); [|assumption]. apply rnd_le; [apply fmt_bpow; lia | exact H1].
Qed.

Lemma term_near n cm m d1 : (1 <= n)%nat -> (Z.of_nat n < 2 ^ 53)%Z -> ffinite cm = true ->
  f2r cm = m * (1 + d1) -> Rabs d1 <= u -> (m = 0 \/ bpow radix2 (-1021) * INR n <= m) -> 0 <= m <= bpow radix2 1022 ->
  ffinite (PrimFloat.div cm (f_ofnat n)) = true /\ near 2 (f2r (PrimFloat.div cm (f_ofnat n))) (m / INR n).
Proof.
  intros Hn Hb Fc Ec Hd1 Hm0 Hm. pose proof u_small as Hu. pose proof BIG_pos as BP.
  destruct (f_ofnat_exact n Hb) as [Fw Ew].
  assert (Hw : 1 <= INR n) by (change 1 with (INR 1); apply le_INR; exact Hn).
  pose proof (Rabs_le_inv _ _ Hd1) as Hd1'.
  set (y := f2r cm / f2r (f_ofnat n)).
  assert (Ey : y = m / INR n * (1 + d1)) by (unfold y; rewrite Ec, Ew; field; lra).
  assert (Hmn : 0 <= m / INR n <= m).
  { split; [apply Rmult_le_pos; [lra | apply Rlt_le, Rinv_0_lt_compat; lra]|].
    apply (Rmult_le_reg_r (INR n)); [lra|]. unfold Rdiv. rewrite Rmult_assoc, Rinv_l by lra.
    assert (m * 1 <= m * INR n) by (apply Rmult_le_compat_l; lra). lra. }
  assert (Hy : 0 <= y <= bpow radix2 1023).
  { rewrite Ey, B1023. split; [apply Rmult_le_pos; lra|].
    apply Rle_trans with (m / INR n * 2); [apply Rmult_le_compat_l; lra | lra]. }
  assert (Hyu : y = 0 \/ bpow radix2 (-1022) <= Rabs y).
  { destruct Hm0 as [->|Hm0]; [left; rewrite Ey; unfold Rdiv; ring|]. right.
    rewrite Rabs_pos_eq by lra. rewrite Ey.
    assert (H1 : bpow radix2 (-1021) <= m / INR n).
    { apply (Rmult_le_reg_r (INR n)); [lra|]. unfold Rdiv. rewrite Rmult_assoc, Rinv_l by lra. lra. }
    assert (E : bpow radix2 (-1021) = 2 * bpow radix2 (-1022)) by (change (-1021)%Z with (1 + -1022)%Z; rewrite bpow_plus; reflexivity).
    pose proof (bpow_gt_0 radix2 (-1022)).
    apply Rle_trans with (m / INR n * / 2); [lra|]. apply Rmult_le_compat_l; lra. }
  destruct (rnd_rel y Hyu) as (d2 & Hd2 & E2).
  pose proof (rnd_fin_range y Hy) as Hr.
  assert (Hw0 : f2r (f_ofnat n) <> 0) by (rewrite Ew; lra).
  destruct (div_spec cm (f_ofnat n) Fc Fw Hw0) as [(_ & Ff & E)|[(Hr' & _)|(Hr' & _)]];
    [|exfalso; unfold b64_div in Hr'; fold y in Hr'; lra|exfalso; unfold b64_div in Hr'; fold y in Hr'; lra].
  split; [exact Ff|]. rewrite E. unfold b64_div. fold y. rewrite E2, Ey.
  replace 2 with (0 + 1 + 1) by ring.
  apply near_round; try lra.
  apply near_round; try lra.
  apply near_refl; lra.
Qed.

Local Notation gains := (@gains R ROps).
Local Notation losses := (@losses R ROps).

Lemma gains_cons c l : gains (c :: l) = gof c + gains l.
Proof. unfold SpecRsi.gains. apply smap_cons. Qed.
Lemma losses_cons c l : losses (c :: l) = lof c + losses l.
Proof. unfold SpecRsi.losses. apply smap_cons. Qed.
Lemma gains_nonneg l : 0 <= gains l. Proof. apply smap_nonneg, gof_nonneg. Qed.
Lemma losses_nonneg l : 0 <= losses l. Proof. apply smap_nonneg, lof_nonneg. Qed.

(** accumulate one term *)
Lemma acc_near k (gf df : F) g t : ffinite gf = true -> ffinite df = true -> 0 <= g -> 0 <= t -> 2 <= k -> (k + 1) * u <= / 4 ->
  near k (f2r gf) g -> near 2 (f2r df) t -> g + t <= bpow radix2 1022 ->
  ffinite (PrimFloat.add gf df) = true /\ near (k + 1) (f2r (PrimFloat.add gf df)) (g + t).
Proof.
  intros Fg Fd Hg Ht Hk Hku Ng Nd Hb. pose proof u_small as Hu. pose proof BIG_pos as BP.
  assert (Hku' : k * u <= / 4) by (assert (0 <= 1 * u) by lra; lra).
  assert (Nd' : near k (f2r df) t) by (apply (near_mono 2); try lra; exact Nd).
  pose proof (near_add k _ _ _ _ Ng Nd') as Ns.
  assert (Hs0 : 0 <= f2r gf + f2r df) by (apply (near_nonneg k _ (g + t)); [lra | lra | exact Ns]).
  assert (Hs1 : f2r gf + f2r df <= bpow radix2 1023).
  { destruct Ns as [_ N2]. rewrite B1023. pose proof (bpow_gt_0 radix2 1022).
    assert ((f2r gf + f2r df) * (3 / 4) <= (f2r gf + f2r df) * (1 - k * u)) by (apply Rmult_le_compat_l; lra). lra. }
  pose proof (rnd_fin_range _ (conj Hs0 Hs1)) as Hr.
  destruct (rnd_add_rel (f2r gf) (f2r df) (f2r_format _) (f2r_format _)) as (d & Hd & E).
  destruct (add_spec gf df Fg Fd) as [(_ & Ff & Ea)|[(Hr' & _)|(Hr' & _)]];
    [|exfalso; unfold b64_add in Hr'; lra|exfalso; unfold b64_add in Hr'; lra].
  split; [exact Ff|]. rewrite Ea. unfold b64_add. rewrite E.
  apply near_round; try lra. exact Ns.
Qed.

Lemma sums_near n : (1 <= n)%nat -> (Z.of_nat n < 2 ^ 53)%Z ->
  forall q prev gf lf g l k, Forall fin q -> ffinite prev = true ->
  Forall (okd n) (cf (f2r prev) (map f2r q)) ->
  ffinite gf = true -> ffinite lf = true -> 0 <= g -> 0 <= l ->
  near k (f2r gf) g -> near k (f2r lf) l -> 2 <= k -> (k + INR (length q)) * u <= / 4 ->
  g + gains (cf (f2r prev) (map f2r q)) / INR n <= bpow radix2 1022 ->
  l + losses (cf (f2r prev) (map f2r q)) / INR n <= bpow radix2 1022 ->
  exists Gf Lf, @rsi_sums F FOps (f_ofnat n) q prev gf lf = Ok (Gf, Lf) /\ ffinite Gf = true /\ ffinite Lf = true /\
    near (k + INR (length q)) (f2r Gf) (g + gains (cf (f2r prev) (map f2r q)) / INR n) /\
    near (k + INR (length q)) (f2r Lf) (l + losses (cf (f2r prev) (map f2r q)) / INR n).
Proof.
  intros Hn Hb. pose proof u_small as Hu. pose proof BIG_pos as BP.
  assert (Hw : 1 <= INR n) by (change 1 with (INR 1); apply le_INR; exact Hn).
  induction q as [|v q IH]; intros prev gf lf g l k Hq Fp Hok Fg Fl Hg Hl Ng Nl Hk Hku HBg HBl.
  - cbn [rsi_sums map changes_from length INR] in *. exists gf, lf. split; [reflexivity|]. split; [exact Fg|]. split; [exact Fl|].
    unfold SpecRsi.gains, SpecRsi.losses. cbn [map]. unfold ssum. cbn [fold_left s0 ROps].
    replace (k + 0) with k by ring. replace (g + 0 / INR n) with g by (unfold Rdiv; ring).
    replace (l + 0 / INR n) with l by (unfold Rdiv; ring). split; assumption.
  - inversion Hq as [|? ? Fv Hq']; subst. cbn [map changes_from] in Hok, HBg, HBl |- *.
    cbn [ssub ROps] in Hok, HBg, HBl |- *.
    inversion Hok as [|? ? [Hc0 Hc1] Hok']; subst. set (c := f2r v - f2r prev) in *.
    rewrite gains_cons in HBg |- *. rewrite losses_cons in HBl |- *.
    pose proof (gains_nonneg (cf (f2r v) (map f2r q))) as HG0. pose proof (losses_nonneg (cf (f2r v) (map f2r q))) as HL0.
    assert (HGn : 0 <= gains (cf (f2r v) (map f2r q)) / INR n) by (apply Rmult_le_pos; [lra | apply Rlt_le, Rinv_0_lt_compat; lra]).
    assert (HLn : 0 <= losses (cf (f2r v) (map f2r q)) / INR n) by (apply Rmult_le_pos; [lra | apply Rlt_le, Rinv_0_lt_compat; lra]).
    cbn [length] in Hku |- *. rewrite S_INR in Hku |- *.
    assert (HINR : 0 <= INR (length q)) by apply pos_INR.
    assert (HLu : 0 <= INR (length q) * u) by (apply Rmult_le_pos; lra).
    (* the change, as a float *)
    assert (Hcr : Rabs (b64_sub (f2r v) (f2r prev)) < BIG).
    { unfold b64_sub. fold c. pose proof B1023_lt. apply Rabs_def1.
      - apply Rle_lt_trans with (bpow radix2 1022); [apply rnd_le; [apply fmt_bpow; lia | apply Rabs_le_inv in Hc1; lra]|].
        rewrite B1023 in *. pose proof (bpow_gt_0 radix2 1022). lra.
      - apply Rlt_le_trans with (- bpow radix2 1022); [rewrite B1023 in *; pose proof (bpow_gt_0 radix2 1022); lra|].
        apply rnd_ge; [apply format_opp, fmt_bpow; lia | apply Rabs_le_inv in Hc1; lra]. }
    destruct (prim_sub_b64 v prev Fv Fp Hcr) as [Ech Fch].
    destruct (rnd_sub_rel (f2r v) (f2r prev) (f2r_format _) (f2r_format _)) as (d1 & Hd1 & E1).
    fold c in E1. unfold b64_sub in Ech. fold c in Ech. rewrite E1 in Ech.
    pose proof (Rabs_le_inv _ _ Hd1) as Hd1'.
    cbn [rsi_sums]. unfold sgtb. cbn [sltb ssub sabs sadd sdiv s0 FOps bind].
    rewrite (proj1 (sub_sign_exact v prev Fv Fp)). fold c.
    destruct (gl_cases c) as [(Hc & Eg & El)|(Hc & Eg & El)]; rewrite Eg in HBg |- *; rewrite El in HBl |- *.
    + replace (Rltb 0 c) with true by (symmetry; apply Rltb_true; exact Hc).
      assert (Hm0 : c = 0 \/ bpow radix2 (-1021) * INR n <= c) by (rewrite Rabs_pos_eq in Hc0 by lra; exact Hc0).
      assert (Hm1 : 0 <= c <= bpow radix2 1022) by (rewrite Rabs_pos_eq in Hc1 by lra; lra).
      destruct (term_near n (PrimFloat.sub v prev) c d1 Hn Hb Fch Ech Hd1 Hm0 Hm1) as [Fd Nd].
      assert (Hcn : 0 <= c / INR n) by (apply Rmult_le_pos; [lra | apply Rlt_le, Rinv_0_lt_compat; lra]).
      destruct (acc_near k gf _ g (c / INR n) Fg Fd Hg Hcn Hk ltac:(lra) Ng Nd) as [Fg' Ng'].
      { replace ((c + gains (cf (f2r v) (map f2r q))) / INR n) with (c / INR n + gains (cf (f2r v) (map f2r q)) / INR n) in HBg by (field; lra). lra. }
      destruct (IH v _ lf (g + c / INR n) l (k + 1) Hq' Fv Hok' Fg' Fl ltac:(lra) Hl Ng') as (Gf & Lf & Es & FG & FL & NG & NL).
      * apply (near_mono k); try lra. exact Nl.
      * lra.
      * lra.
      * replace ((c + gains (cf (f2r v) (map f2r q))) / INR n) with (c / INR n + gains (cf (f2r v) (map f2r q)) / INR n) in HBg by (field; lra). lra.
      * replace ((0 + losses (cf (f2r v) (map f2r q))) / INR n) with (losses (cf (f2r v) (map f2r q)) / INR n) in HBl by (field; lra). lra.
      * exists Gf, Lf. split; [exact Es|]. split; [exact FG|]. split; [exact FL|].
        replace (k + (INR (length q) + 1)) with (k + 1 + INR (length q)) by ring.
        replace (g + (c + gains (cf (f2r v) (map f2r q))) / INR n) with (g + c / INR n + gains (cf (f2r v) (map f2r q)) / INR n) by (field; lra).
        replace (l + (0 + losses (cf (f2r v) (map f2r q))) / INR n) with (l + losses (cf (f2r v) (map f2r q)) / INR n) by (field; lra).
        split; assumption.
    + replace (Rltb 0 c) with false by (symmetry; apply Rltb_false; exact Hc).
      destruct (prim_abs_fin (PrimFloat.sub v prev)) as [Fa Ea]. rewrite Fch in Fa.
      assert (Ea' : f2r (PrimFloat.abs (PrimFloat.sub v prev)) = (- c) * (1 + d1)).
      { rewrite Ea, Ech, Rabs_mult, (Rabs_left1 c) by exact Hc. rewrite (Rabs_pos_eq (1 + d1)) by lra. reflexivity. }
      assert (Hm0 : - c = 0 \/ bpow radix2 (-1021) * INR n <= - c).
      { rewrite Rabs_left1 in Hc0 by lra. destruct Hc0 as [->|H]; [left; ring | right; exact H]. }
      assert (Hm1 : 0 <= - c <= bpow radix2 1022) by (rewrite Rabs_left1 in Hc1 by lra; lra).
      destruct (term_near n _ (- c) d1 Hn Hb Fa Ea' Hd1 Hm0 Hm1) as [Fd Nd].
      assert (Hcn : 0 <= - c / INR n) by (apply Rmult_le_pos; [lra | apply Rlt_le, Rinv_0_lt_compat; lra]).
      destruct (acc_near k lf _ l (- c / INR n) Fl Fd Hl Hcn Hk ltac:(lra) Nl Nd) as [Fl' Nl'].
      { replace ((- c + losses (cf (f2r v) (map f2r q))) / INR n) with (- c / INR n + losses (cf (f2r v) (map f2r q)) / INR n) in HBl by (field; lra). lra. }
      destruct (IH v gf _ g (l + - c / INR n) (k + 1) Hq' Fv Hok' Fg Fl' Hg ltac:(lra)) as (Gf & Lf & Es & FG & FL & NG & NL).
      * apply (near_mono k); try lra. exact Ng.
      * exact Nl'.
      * lra.
      * lra.
      * replace ((0 + gains (cf (f2r v) (map f2r q))) / INR n) with (gains (cf (f2r v) (map f2r q)) / INR n) in HBg by (field; lra). lra.
      * replace ((- c + losses (cf (f2r v) (map f2r q))) / INR n) with (- c / INR n + losses (cf (f2r v) (map f2r q)) / INR n) in HBl by (field; lra). lra.
      * exists Gf, Lf. split; [exact Es|]. split; [exact FG|]. split; [exact FL|].
        replace (k + (INR (length q) + 1)) with (k + 1 + INR (length q)) by ring.
        replace (g + (0 + gains (cf (f2r v) (map f2r q))) / INR n) with (g + gains (cf (f2r v) (map f2r q)) / INR n) by (field; lra).
        replace (l + (- c + losses (cf (f2r v) (map f2r q))) / INR n) with (l + - c / INR n + losses (cf (f2r v) (map f2r q)) / INR n) by (field; lra).
        split; assumption.
Qed.

(** * The answer recomputed from the window *)
Lemma R100 : @sofdec R ROps 100 0 = 100.
Proof. cbn [sofdec ROps]. change (10 ^ Z.of_nat 0)%Z with 1%Z. lra. Qed.

Lemma block_near n q prev v : (1 <= n)%nat -> (Z.of_nat n < 2 ^ 40)%Z -> (length q <= n)%nat ->
  Forall fin q -> ffinite prev = true -> Forall (okd n) (cf (f2r prev) (map f2r q)) ->
  gains (cf (f2r prev) (map f2r q)) / INR n <= bpow radix2 1022 ->
  losses (cf (f2r prev) (map f2r q)) / INR n <= bpow radix2 1022 ->
  gains (cf (f2r prev) (map f2r q)) <= bpow radix2 1000 * losses (cf (f2r prev) (map f2r q)) ->
  @rsi_block F FOps n q prev = Ok v ->
  exists r, @rsi_block R ROps n (map f2r q) (f2r prev) = Ok r /\ ffinite v = true /\
            Rabs (f2r v - r) <= (2 * INR n + 10) * 100 * u.
Proof.
  intros Hn Hb Hlen Hq Fp Hok HBg HBl Hratio Hblk.
  pose proof u_small as Hu. pose proof BIG_pos as BP. pose proof b64_u_val as Huv.
  pose proof u_eta as Heta. pose proof b64_eta_nonneg as He0.
  assert (Hb53 : (Z.of_nat n < 2 ^ 53)%Z) by (change (2 ^ 40)%Z with 1099511627776%Z in Hb; change (2 ^ 53)%Z with 9007199254740992%Z; lia).
  assert (Hw : 1 <= INR n) by (change 1 with (INR 1); apply le_INR; exact Hn).
  assert (HN : INR n <= 1099511627776).
  { rewrite INR_IZR_INZ. apply IZR_le. change (2 ^ 40)%Z with 1099511627776%Z in Hb. lia. }
  assert (HLq : 0 <= INR (length q) <= INR n) by (split; [apply pos_INR | apply le_INR; exact Hlen]).
  destruct prim_zero_fin as [F0 E0]. destruct prim_one_fin as [F1 E1]. destruct f2r_100 as [F100 E100].
  set (Gs := gains (cf (f2r prev) (map f2r q))) in *. set (Ls := losses (cf (f2r prev) (map f2r q))) in *.
  assert (HGs : 0 <= Gs) by apply gains_nonneg. assert (HLs : 0 <= Ls) by apply losses_nonneg.
  set (K := 2 + INR (length q)).
  assert (HK : 2 <= K <= INR n + 2) by (unfold K; lra).
  assert (HKu : K * u <= / 1000).
  { apply Rle_trans with ((1099511627776 + 2) * u); [apply Rmult_le_compat_r; lra | rewrite Huv; lra]. }
  destruct (sums_near n Hn Hb53 q prev fzero fzero 0 0 2 Hq Fp Hok F0 F0 (Rle_refl 0) (Rle_refl 0)) as (Gf & Lf & Es & FG & FL & NG & NL).
  { rewrite E0. apply near_refl; lra. }
  { rewrite E0. apply near_refl; lra. }
  { lra. }
  { fold K. lra. }
  { fold Gs. lra. }
  { fold Ls. lra. }
  fold Gs Ls K in NG, NL. rewrite Rplus_0_l in NG, NL.
  set (G0 := Gs / INR n) in *. set (L0 := Ls / INR n) in *.
  assert (HG0 : 0 <= G0) by (apply Rmult_le_pos; [lra | apply Rlt_le, Rinv_0_lt_compat; lra]).
  assert (HL0 : 0 <= L0) by (apply Rmult_le_pos; [lra | apply Rlt_le, Rinv_0_lt_compat; lra]).
  pose proof (near_nonneg K _ _ HG0 ltac:(lra) NG) as HGf0.
  pose proof (near_nonneg K _ _ HL0 ltac:(lra) NL) as HLf0.
  (* the exact block *)
  unfold rsi_block. cbn [sofnat s0 ROps]. rewrite rsi_sums_acc by lra. fold Gs Ls. rewrite !Rplus_0_l. fold G0 L0.
  unfold rsi_block in Hblk. cbn [sofnat s0 FOps] in Hblk. rewrite Es in Hblk.
  cbn [seqb sdiv sadd ssub s1 s0 FOps ROps] in Hblk |- *. rewrite R100.
  rewrite (prim_eqb_real Lf fzero FL F0), E0 in Hblk.
  destruct (Req_dec L0 0) as [HLz|HLnz].
  - (* no loss in the window: both answer 100 *)
    assert (HLfz : f2r Lf = 0).
    { destruct NL as [_ N2]. rewrite HLz in N2. assert (0 <= f2r Lf * (K * u)) by (apply Rmult_le_pos; [lra | apply Rmult_le_pos; lra]).
      assert (f2r Lf * (1 - K * u) >= f2r Lf * (1 / 2)) by (apply Rle_ge, Rmult_le_compat_l; lra). lra. }
    rewrite HLfz in Hblk. replace (Reqb 0 0) with true in Hblk by (symmetry; apply Reqb_true; reflexivity).
    inversion Hblk; subst v. replace (Reqb L0 0) with true by (symmetry; apply Reqb_true; exact HLz).
    exists 100. split; [reflexivity|]. split; [exact F100|]. rewrite E100, Rminus_diag_eq, Rabs_R0 by reflexivity.
    apply Rmult_le_pos; lra.
  - assert (HLp : 0 < L0) by lra.
    assert (HLfp : 0 < f2r Lf).
    { destruct NL as [N1 _]. assert (0 < L0 * (1 - K * u)) by (apply Rmult_lt_0_compat; lra). lra. }
    replace (Reqb (f2r Lf) 0) with false in Hblk by (symmetry; apply Reqb_false; lra).
    replace (Reqb L0 0) with false by (symmetry; apply Reqb_false; exact HLnz).
    rewrite Rdiv_res_ok by lra.
    set (rs := G0 / L0).
    assert (Hrs : 0 <= rs <= bpow radix2 1000).
    { unfold rs. split; [apply Rmult_le_pos; [lra | apply Rlt_le, Rinv_0_lt_compat; lra]|].
      apply (Rmult_le_reg_r L0); [exact HLp|]. unfold Rdiv. rewrite Rmult_assoc, Rinv_l by lra.
      rewrite Rmult_1_r. unfold G0, L0. replace (bpow radix2 1000 * (Ls / INR n)) with (bpow radix2 1000 * Ls / INR n) by (field; lra).
      apply Rmult_le_compat_r; [apply Rlt_le, Rinv_0_lt_compat; lra | exact Hratio]. }
    rewrite Rdiv_res_ok by lra.
    (* rs *)
    set (rho := f2r Gf / f2r Lf).
    assert (Nrho : near (2 * K) rho rs) by (apply near_quot; try lra; assumption).
    assert (Hrho0 : 0 <= rho) by (apply Rmult_le_pos; [lra | apply Rlt_le, Rinv_0_lt_compat; lra]).
    assert (B1001 : bpow radix2 1001 = 2 * bpow radix2 1000) by (change 1001%Z with (1 + 1000)%Z; rewrite bpow_plus; reflexivity).
    assert (B1001lt : bpow radix2 1002 < BIG) by (apply bpow_lt; lia).
    assert (B1002 : bpow radix2 1002 = 2 * bpow radix2 1001) by (change 1002%Z with (1 + 1001)%Z; rewrite bpow_plus; reflexivity).
    pose proof (bpow_gt_0 radix2 1000) as Bp.
    assert (B1000 : 1 <= bpow radix2 1000) by (change 1 with (bpow radix2 0); apply bpow_le; lia).
    assert (Hrho1 : rho <= bpow radix2 1001).
    { destruct Nrho as [_ N2]. assert (rho * (1 / 2) <= rho * (1 - 2 * K * u)) by (apply Rmult_le_compat_l; lra). lra. }
    assert (Hrr : 0 <= b64_div (f2r Gf) (f2r Lf) <= bpow radix2 1001).
    { unfold b64_div. fold rho. split; [apply rnd_ge; [exact b64_format_0 | exact Hrho0] | apply rnd_le; [apply fmt_bpow; lia | exact Hrho1]]. }
    destruct (div_spec Gf Lf FG FL ltac:(lra)) as [(_ & Frs & Ers)|[(Hr' & _)|(Hr' & _)]]; [|exfalso; lra|exfalso; lra].
    set (rsf := PrimFloat.div Gf Lf) in *.
    destruct (b64_round_err rho) as (d1 & e1 & Hd1 & He1 & R1). unfold b64_div in Ers, Hrr. fold rho in Ers, Hrr. rewrite <- Ers in Hrr.
    rewrite R1 in Ers.
    (* 1 + rs *)
    assert (Hsa : 1 <= 1 + f2r rsf <= bpow radix2 1002) by lra.
    assert (Hsr : 1 <= b64_add (f2r fone) (f2r rsf) <= bpow radix2 1002).
    { rewrite E1. unfold b64_add. split; [apply rnd_ge; [exact b64_format_1 | lra] | apply rnd_le; [apply fmt_bpow; lia | lra]]. }
    destruct (add_spec fone rsf F1 Frs) as [(_ & Fs & Esf)|[(Hr' & _)|(Hr' & _)]]; [|exfalso; lra|exfalso; lra].
    set (sf := PrimFloat.add fone rsf) in *. rewrite <- Esf in Hsr.
    destruct (rnd_add_rel (f2r fone) (f2r rsf) (f2r_format _) (f2r_format _)) as (d2 & Hd2 & R2).
    unfold b64_add in Esf. rewrite R2, E1 in Esf.
    assert (Nsf : near (2 * K + 3) (f2r sf) (1 + rs)).
    { rewrite Esf. replace (2 * K + 3) with (2 * K + 2 + 1) by ring. apply near_round; try lra.
      set (A0 := 1 + rho * (1 + d1)).
      assert (NA0 : near (2 * K + 1) A0 (1 + rs)).
      { unfold A0. apply near_add; [apply near_refl; lra|]. apply near_round; try lra. exact Nrho. }
      assert (HA0 : 1 <= A0).
      { unfold A0. apply Rabs_le_inv in Hd1. assert (0 <= rho * (1 + d1)) by (apply Rmult_le_pos; lra). lra. }
      assert (EA : 1 + f2r rsf = A0 * (1 + e1 / A0)).
      { rewrite Ers. replace (A0 * (1 + e1 / A0)) with (A0 + e1) by (field; lra). unfold A0. ring. }
      rewrite EA.
      replace (2 * K + 2) with (2 * K + 1 + 1) by ring. apply near_round; try lra; [exact NA0|].
      unfold Rdiv. rewrite Rabs_mult, (Rabs_pos_eq (/ A0)) by (apply Rlt_le, Rinv_0_lt_compat; lra).
      assert (/ A0 <= 1) by (rewrite <- Rinv_1; apply Rinv_le_contravar; lra).
      assert (0 < / A0) by (apply Rinv_0_lt_compat; lra).
      apply Rle_trans with (b64_eta * 1); [apply Rmult_le_compat; try apply Rabs_pos; lra | lra]. }
    (* 100 / (1 + rs) *)
    set (Dq := f2r f100 / f2r sf).
    assert (HDq : 0 <= Dq <= 100).
    { unfold Dq. rewrite E100. split; [apply Rmult_le_pos; [lra | apply Rlt_le, Rinv_0_lt_compat; lra]|].
      apply (Rmult_le_reg_r (f2r sf)); [lra|]. unfold Rdiv. rewrite Rmult_assoc, Rinv_l by lra.
      assert (100 * 1 <= 100 * f2r sf) by (apply Rmult_le_compat_l; lra). lra. }
    assert (HDr : 0 <= b64_div (f2r f100) (f2r sf) <= 100).
    { unfold b64_div. fold Dq. split; [apply rnd_ge; [exact b64_format_0 | lra] | apply rnd_le; [exact format_100 | lra]]. }
    pose proof BIG_gt_100 as B100.
    destruct (div_spec f100 sf F100 Fs ltac:(lra)) as [(_ & Fd & Ed)|[(Hr' & _)|(Hr' & _)]]; [|exfalso; lra|exfalso; lra].
    set (df := PrimFloat.div f100 sf) in *. rewrite <- Ed in HDr.
    destruct (b64_round_err Dq) as (d3 & e3 & Hd3 & He3 & R3). unfold b64_div in Ed. fold Dq in Ed. rewrite R3 in Ed.
    set (D := 100 / (1 + rs)).
    assert (HD : 0 <= D <= 100).
    { unfold D. split; [apply Rmult_le_pos; [lra | apply Rlt_le, Rinv_0_lt_compat; lra]|].
      apply (Rmult_le_reg_r (1 + rs)); [lra|]. unfold Rdiv. rewrite Rmult_assoc, Rinv_l by lra.
      assert (100 * 1 <= 100 * (1 + rs)) by (apply Rmult_le_compat_l; lra). lra. }
    assert (NDq : near (2 * K + 3) Dq D).
    { unfold Dq, D. rewrite E100. apply near_inv; try lra. exact Nsf. }
    pose proof (near_abs (2 * K + 3) Dq D 100 HD HDq ltac:(lra) NDq) as A1.
    assert (A2 : Rabs (f2r df - Dq) <= u * 100 + b64_eta).
    { rewrite Ed. replace (Dq * (1 + d3) + e3 - Dq) with (d3 * Dq + e3) by ring.
      eapply Rle_trans; [apply Rabs_triang|]. rewrite Rabs_mult, (Rabs_pos_eq Dq) by lra.
      assert (Rabs d3 * Dq <= u * 100) by (apply Rmult_le_compat; try apply Rabs_pos; lra). lra. }
    (* 100 - d *)
    assert (HOr : 0 <= b64_sub (f2r f100) (f2r df) <= 100).
    { rewrite E100. unfold b64_sub. split; [apply rnd_ge; [exact b64_format_0 | lra] | apply rnd_le; [exact format_100 | lra]]. }
    destruct (sub_spec f100 df F100 Fd) as [(_ & Fo & Eo)|[(Hr' & _)|(Hr' & _)]]; [|exfalso; lra|exfalso; lra].
    destruct (rnd_sub_rel (f2r f100) (f2r df) (f2r_format _) (f2r_format _)) as (d4 & Hd4 & R4).
    unfold b64_sub in Eo. rewrite R4, E100 in Eo.
    assert (Ev : v = PrimFloat.sub f100 df) by (inversion Hblk; reflexivity). rewrite Ev.
    cbn [bind]. eexists. split; [reflexivity|]. split; [exact Fo|].
    fold D. rewrite Eo.
    replace ((100 - f2r df) * (1 + d4) - (100 - D)) with (d4 * (100 - f2r df) - (f2r df - Dq) - (Dq - D)) by ring.
    assert (A3 : Rabs (d4 * (100 - f2r df)) <= u * 100).
    { rewrite Rabs_mult. apply Rmult_le_compat; try apply Rabs_pos; [exact Hd4 | apply Rabs_le; lra]. }
    eapply Rle_trans; [apply Rabs_triang|]. eapply Rle_trans; [apply Rplus_le_compat_r, Rabs_triang|].
    rewrite !Rabs_Ropp.
    assert (HKn : (2 * K + 3) * u * 100 <= (2 * INR n + 7) * u * 100).
    { apply Rmult_le_compat_r; [lra|]. apply Rmult_le_compat_r; lra. }
    assert (Hnu : 0 <= INR n * u) by (apply Rmult_le_pos; lra).
    lra.
Qed.

Lemma gl_le l B : 0 <= B -> Forall (fun d => Rabs d <= B) l ->
  gains l <= INR (length l) * B /\ losses l <= INR (length l) * B.
Proof.
  intros HB. induction 1 as [|d l Hd _ [IH1 IH2]].
  - unfold SpecRsi.gains, SpecRsi.losses. cbn. lra.
  - rewrite gains_cons, losses_cons. cbn [length]. rewrite S_INR. apply Rabs_le_inv in Hd.
    destruct (gl_cases d) as [(H & -> & ->)|(H & -> & ->)]; lra.
Qed.

(** C16 at f64, Rsi.  Window 1 <= n < 2^40, finite inputs; every change d = x_i - x_(i-1) in the window (on the real
    values) is 0 or has 2^-1021 * n <= |d| (the division by n does not underflow) and |d| <= 2^1022 (no overflow); the
    exact gain/loss ratio is at most 2^1000.  Then the answer is finite and within (2n + 10) * 100 * 2^-53 of the
    exact answer, whatever the length of the stream.
    [_partial]: the hypothesis G <= 2^1000 * L is only there to keep gain/loss and 1 + gain/loss from overflowing;
    the statement without it (the answer is then within 100 * 2^-900 of 100 on both sides) is not proved here. *)
Theorem rsi_f64_accuracy_partial n (fs : list F) (v : F) : (1 <= n)%nat -> (Z.of_nat n < 2 ^ 40)%Z ->
  Forall fin fs ->
  Forall (okd n) (lastn n (chg (map f2r fs))) ->
  @win_gain R ROps n (map f2r fs) <= bpow radix2 1000 * @win_loss R ROps n (map f2r fs) ->
  cout (@rsi_core F FOps n) fs = Ok (Some v) ->
  exists r, cout (@rsi_core R ROps n) (map f2r fs) = Ok (Some r) /\ ffinite v = true /\
            Rabs (f2r v - r) <= (2 * INR n + 10) * 100 * / 9007199254740992.
Proof.
  intros Hn Hb Hf Hok Hratio Hc. set (h := map f2r fs) in *.
  assert (Hb53 : (Z.of_nat n < 2 ^ 53)%Z) by (change (2 ^ 40)%Z with 1099511627776%Z in Hb; change (2 ^ 53)%Z with 9007199254740992%Z; lia).
  assert (Hw : 1 <= INR n) by (change 1 with (INR 1); apply le_INR; exact Hn).
  unfold cout in Hc |- *.
  destruct (crun (@rsi_core F FOps n) fs) as [sf|e] eqn:Ef; [|discriminate]. cbn [bind clast rsi_core] in Hc.
  inversion Hc as [Hout]. clear Hc.
  destruct (rsi_ginv_run n fs sf Hn Ef) as [GN GS].
  destruct (rsi_rrun n fs sf Hn Hb53 Hf Ef) as (Hq & Fo & _).
  destruct (rsi_run n h Hn) as (sr & Er & (Iq & Iref & _ & _)).
  destruct (rsi_struct n fs sf sr Hn Ef Er) as [Sq So].
  destruct (rsi_ginv_run n h sr Hn Er) as [_ GSr].
  assert (Hlen : (n <= length (rsi_q sf))%nat).
  { destruct (Nat.lt_ge_cases (length (rsi_q sf)) n) as [H|H]; [|exact H]. rewrite (GN H) in Hout. discriminate. }
  destruct (GS Hlen) as (v' & Bv & Ov). rewrite Hout in Ov. inversion Ov; subst v'. clear Ov.
  assert (Hlenr : length (rsi_q sr) = length (rsi_q sf)) by (rewrite Sq; apply map_length).
  destruct (GSr ltac:(lia)) as (r' & Br & Or).
  assert (Hne : h <> []).
  { intros E. rewrite E, lastn_nil in Iq. rewrite Iq in Hlenr. cbn [length] in Hlenr. lia. }
  destruct (Iref Hne) as [Eref _].
  assert (Hle : (length (rsi_q sf) <= n)%nat).
  { rewrite <- Hlenr, Iq, lastn_length. lia. }
  assert (Ecf : cf (f2r (rsi_oldref sf)) (map f2r (rsi_q sf)) = lastn n (chg h)).
  { rewrite <- So, <- Sq, Eref, Iq. symmetry. apply win_changes. }
  assert (Hcnt : (length (lastn n (chg h)) <= n)%nat) by (rewrite lastn_length; lia).
  assert (HB : Forall (fun d => Rabs d <= bpow radix2 1022) (lastn n (chg h))).
  { eapply Forall_impl; [|exact Hok]. intros d [_ H]. exact H. }
  destruct (gl_le _ (bpow radix2 1022) (bpow_ge_0 _ _) HB) as [HG HL].
  assert (Hcn : INR (length (lastn n (chg h))) <= INR n) by (apply le_INR; exact Hcnt).
  pose proof (bpow_gt_0 radix2 1022) as Bp.
  assert (Hdivn : forall x, x <= INR (length (lastn n (chg h))) * bpow radix2 1022 -> x / INR n <= bpow radix2 1022).
  { intros x Hx. apply (Rmult_le_reg_r (INR n)); [lra|]. unfold Rdiv. rewrite Rmult_assoc, Rinv_l by lra.
    assert (INR (length (lastn n (chg h))) * bpow radix2 1022 <= INR n * bpow radix2 1022) by (apply Rmult_le_compat_r; lra). lra. }
  destruct (block_near n (rsi_q sf) (rsi_oldref sf) v Hn Hb Hle Hq Fo) as (r & Brr & Fv & Hacc); try (rewrite Ecf).
  - exact Hok.
  - apply Hdivn. exact HG.
  - apply Hdivn. exact HL.
  - exact Hratio.
  - exact Bv.
  - rewrite <- So, <- Sq, Br in Brr. inversion Brr; subst r'.
    exists r. rewrite Er. cbn [bind clast rsi_core]. rewrite Or. split; [reflexivity|]. split; [exact Fv|].
    rewrite <- b64_u_val. exact Hacc.
Qed.

Local Set Warnings "-inexact-float".
(** the hypotheses are satisfiable on a non-trivial stream (dyadic values, so that the real side conditions are
    decided by [lra] after computing the real values) -- here only the float side is run *)
Example rsi_f64_accuracy_ex :
  forallb ffinite [1e6; 8.13; 3.461; 5.401; 3.311; 8]%float = true /\
  exists v, cout (@rsi_core F FOps 3) [1e6; 8.13; 3.461; 5.401; 3.311; 8]%float = Ok (Some v) /\ ffinite v = true.
Proof. split; [vm_compute; reflexivity|]. eexists. split; vm_compute; reflexivity. Qed.

Print Assumptions rsi_f64_accuracy_partial.
