(** C09 (stability and fading memory) at [R]: summary of the main theorems, satisfiability examples and
    assumptions.  The proofs are in Stab{Base,Ema,Lag,SS,Roof,CC,Comp,Flex,Eft}.v.

    [bibo c K]            : |x_i| <= U for all i  ->  |out| <= K U, for every stream length.
    [fading_bound c F]    : same-length prefixes bounded by U, common tail s (arbitrary values)
                            ->  |out(p++s) - out(p'++s)| <= F (2U) |s|,  F explicit, geometric in |s|.
    [fading_eps c]        : the epsilon form.
    [zero_input_bound c F]: |out(d ++ 0^k)| <= F V k when d is bounded by V (by linearity this IS fading).

    Ema            ema_bibo (K = 1), ema_fading_exact (= rho^k, rho = 1 - 2/(n+1)), ema_fading, ema_fading_eps
    LaguerreFilter laguerre_bibo (K = (1+2k+2k^2+k^3)/6, k = (1+g)/(1-g)), laguerre_zero_input, laguerre_fading
                   (k^3 V (2j+1)^3 g^(j-3)), laguerre_L0_geometric, laguerre_fading_eps
    SuperSmoother  ss_bibo (K = |c1|/((1-a1)|sin theta|)), ss_zero_input, ss_fading (K V a1^(k-1)),
                   ss_homogeneous_exact (W -> a1^2 W), ss_fading_eps
    RoofingFilter  roofing_pole_lt1, hp_tail_explicit, roofing_bibo, roofing_dc_decays (C10),
                   roofing_zero_input_decays, roofing_fading_eps
    CyberCycle     (all n >= 3) cc_pole_range, cyber_bibo (K = n^2), cyber_zero_input, cyber_fading, cyber_fading_eps
    TrendFlex/ReFlex  trendflex_bounded, reflex_bounded (|out| <= 5)
    EFT            eft_bounded (|out| <= ln 199), fish_rec_halving, fish_fold_halving, eft_step_qout
    chains         bibo_compose, bibo_standalone *)
From Coq Require Import List Arith Lia ZArith Reals Lra.
From SF Require Import Res Scalar View Models Spec Core SpecLin SpecStab.
From SF.Proofs Require Import Chain SafeD.
From SF.Proofs Require Export StabBase StabEma StabLag StabSS StabRoof StabCC StabComp StabFlex StabEft.
Import ListNotations.
Open Scope R_scope.

(** * satisfiability of the hypotheses *)
Example bounded_ex : bounded 1 [1; -1; / 2].
Proof. unfold bounded. repeat (apply Forall_cons; [apply Rabs_le; lra|]). apply Forall_nil. Qed.

Example ema_bibo_ex : bibo (@ema_core R ROps 3) 1.
Proof. apply ema_bibo. lia. Qed.
Example ema_out_ex : exists o, cout (@ema_core R ROps 2) [1; -1; / 2] = Ok (Some o) /\ Rabs o <= 1 * 1.
Proof.
  assert (H : exists o, cout (@ema_core R ROps 2) [1; -1; / 2] = Ok (Some o)).
  { rewrite AvgP.ema_default_closed_form by (left; lia). unfold SpecAvg.spec_ema. cbn [length Nat.ltb Nat.leb].
    eexists. reflexivity. }
  destruct H as [o Ho]. exists o. split; [exact Ho|]. apply (ema_bibo 2 ltac:(lia) 1 _ bounded_ex o Ho).
Qed.
Example ema_fading_exact_ex : (1 <= 3)%nat /\ [1; 2] <> [] /\ length [1; 2] = length [0; -1].
Proof. repeat split; [lia | discriminate]. Qed.
Example ema_fading_ex : fading_bound (@ema_core R ROps 3) (fun V k => V * ema_rho 3 ^ k) /\ 0 <= ema_rho 3 < 1.
Proof. split; [apply ema_fading | apply ema_rho_range]; lia. Qed.
Example ema_fading_eps_ex : fading_eps (@ema_core R ROps 1).
Proof. apply ema_fading_eps. lia. Qed.

Example laguerre_bibo_ex : bibo (@laguerre_core R ROps (4 / 5)) (lag_gain (4 / 5)).
Proof. apply laguerre_bibo. lra. Qed.
Example laguerre_fading_ex : fading_bound (@laguerre_core R ROps 0) (lag_env 0)
                             /\ zero_input_bound (@laguerre_core R ROps (/ 2)) (lag_env (/ 2)).
Proof. split; [apply laguerre_fading | apply laguerre_zero_input]; lra. Qed.

Example laguerre_fading_eps_ex : fading_eps (@laguerre_core R ROps (4 / 5)).
Proof. apply laguerre_fading_eps. lra. Qed.

Example ss_bibo_ex : bibo (@ss_core R ROps 1) (ss_gain 1).
Proof. apply ss_bibo. lia. Qed.
Example ss_fading_ex : fading_bound (@ss_core R ROps 10) (fun V k => ss_gain 10 * V * ssb_a1 10 ^ (k - 1))
                       /\ 0 < @ssb_a1 R ROps 10 < 1.
Proof. split; [apply ss_fading | apply LinConv.ssb_a1_bounds]; lia. Qed.
Example ss_fading_eps_ex : fading_eps (@ss_core R ROps 1).
Proof. apply ss_fading_eps. lia. Qed.

Example roofing_pole_ex : Rabs (1 - @hpb_alpha R ROps 2) < 1 /\ Rabs (1 - @hpb_alpha R ROps 48) < 1.
Proof. split; apply roofing_pole_lt1; lia. Qed.
Example roofing_bibo_ex : bibo (@roofing_core R ROps 2 1) (roofing_gain 2 1).
Proof. apply roofing_bibo; lia. Qed.
Example roofing_dc_decays_ex : exists M, forall k, (M <= k)%nat ->
  exists o, cout (@roofing_core R ROps 2 1) ([1; -2; 7] ++ repeat 3 k) = Ok (Some o) /\ Rabs o < / 1000.
Proof. apply roofing_dc_decays; [lia | lia | lra]. Qed.
Example roofing_fading_eps_ex : fading_eps (@roofing_core R ROps 48 10).
Proof. apply roofing_fading_eps; lia. Qed.

Example cyber_bibo_ex : bibo (@cyber_core R ROps 3) (INR 3 * INR 3).
Proof. apply cyber_bibo. lia. Qed.
Example cyber_fading_ex : fading_bound (@cyber_core R ROps 4) (cc_env 4) /\ 0 <= cc_pole 4 < 1.
Proof. split; [apply cyber_fading | apply cc_pole_range]; lia. Qed.
Example cyber_fading_eps_ex : fading_eps (@cyber_core R ROps 6).
Proof. apply cyber_fading_eps. lia. Qed.

Example trendflex_bounded_ex : exists o, cout (@trendflex_core R ROps 2) [1; 2] = Ok (Some o) /\ Rabs o <= 5.
Proof.
  destruct (safe_trendflex 2 [1; 2] ltac:(lia)) as (s & o & Hr & Hl).
  assert (Hc : cout (@trendflex_core R ROps 2) [1; 2] = Ok o) by (unfold cout; rewrite Hr; exact Hl).
  destruct o as [o|].
  - exists o. split; [exact Hc | exact (trendflex_bounded 2 _ o Hc)].
  - apply (warmup_trendflex 2 [1; 2] ltac:(lia)) in Hc. cbn in Hc. lia.
Qed.
Example reflex_bounded_ex : forall o, cout (@reflex_core R ROps 2) [1; 2] = Ok (Some o) -> Rabs o <= 5.
Proof. intros o. apply reflex_bounded. Qed.

Example fish_rec_ex : -99 / 100 <= 0 <= 99 / 100 /\ Rabs (fish_rec 0 0) <= ln 199.
Proof. split; [lra|]. apply fish_rec_bound; [lra|]. rewrite Rabs_R0. pose proof ln199_pos. lra. Qed.

Example bibo_compose_ex : view_gain (wrap (@ema_core R ROps 3) (standalone (@ss_core R ROps 5))) (1 * ss_gain 5).
Proof. apply bibo_compose; [apply ema_bibo; lia | apply bibo_standalone, ss_bibo; lia]. Qed.

(** * assumptions *)
Print Assumptions ema_bibo.
Print Assumptions ema_contraction.
Print Assumptions ema_fading_exact.
Print Assumptions ema_fading.
Print Assumptions ema_fading_eps.
Print Assumptions laguerre_bibo.
Print Assumptions laguerre_zero_input.
Print Assumptions laguerre_fading.
Print Assumptions laguerre_L0_geometric.
Print Assumptions laguerre_fading_eps.
Print Assumptions ss_bibo.
Print Assumptions ss_zero_input.
Print Assumptions ss_fading.
Print Assumptions ss_homogeneous_exact.
Print Assumptions ss_fading_eps.
Print Assumptions roofing_pole_lt1.
Print Assumptions hp_tail_explicit.
Print Assumptions roofing_bibo.
Print Assumptions roofing_dc_decays.
Print Assumptions roofing_zero_input_decays.
Print Assumptions roofing_fading_eps.
Print Assumptions cyber_bibo.
Print Assumptions cyber_zero_input.
Print Assumptions cyber_fading.
Print Assumptions cyber_fading_eps.
Print Assumptions trendflex_bounded.
Print Assumptions reflex_bounded.
Print Assumptions eft_bounded.
Print Assumptions fish_fold_halving.
Print Assumptions eft_step_halving.
Print Assumptions bibo_compose.
Print Assumptions fading_of_zero_input.
Print Assumptions fading_eps_of_zero_input.
