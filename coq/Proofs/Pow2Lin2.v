(** C12, floating-point half, more value-like views: WelfordRolling, SuperSmoother, LaguerreFilter,
    RoofingFilter, CyberCycle, Alma.  Same setting as Pow2Lin.v: the coefficients (computed from constants with
    rounded exp / cos / sin) are the same in both runs, every value-carrying field scales by sc. *)
From Coq Require Import List Arith Lia Reals Lra ZArith Bool.
From SF Require Import Res Scalar View Models Core.
From SF.Proofs Require Import Pow2Base.
Import ListNotations.
Open Scope R_scope.

Section Views.
Variable rnd : R -> R.
Variable cnat : nat -> R.
Variable cdec : Z -> nat -> R.
Variable sc : R.
Hypothesis rnd_sc : forall x, rnd (sc * x) = sc * rnd x.
Hypothesis sc_pos : 0 < sc.

Notation PO := (RndOps rnd cnat cdec).
Notation scl := (scl sc).
Notation sco := (sco sc).

Ltac sc_rw := sc_rw_with rnd sc rnd_sc sc_pos.
Ltac crush := crush_with rnd sc rnd_sc sc_pos.

(** ** WelfordRolling (running standard deviation and its mean getter) *)
Definition wr_f (st : @wr_st R) : @wr_st R :=
  {| wr_mean := sc * wr_mean st; wr_s := sc * (sc * wr_s st); wr_n := wr_n st |}.

Lemma wr_step_sc st v : @wr_step R PO (wr_f st) (sc * v) = rmap wr_f (@wr_step R PO st v).
Proof. destruct st as [m s k]. unfold wr_step, wr_f. cbn [wr_mean wr_s wr_n]. crush. Qed.

Lemma wr_last_sc st : @wr_last R PO (wr_f st) = rmap sco (@wr_last R PO st).
Proof. destruct st as [m s k]. unfold wr_last, wr_variance, wr_f. cbn [wr_mean wr_s wr_n]. crush. rewrite sqrt_0, <- rnd_sc, sc_0. reflexivity. Qed.

Lemma wr_new_sc : wr_f (@wr_new R PO) = @wr_new R PO.
Proof. unfold wr_f, wr_new. cbn [wr_mean wr_s wr_n]. opsimp. rewrite !sc_0. reflexivity. Qed.

Theorem wrolling_scales vs :
  cout (@wrolling_core R PO) (map (Rmult sc) vs) = rmap sco (cout (@wrolling_core R PO) vs).
Proof.
  apply (cout_sim (@wrolling_core R PO) sc wr_f sco).
  - cbn [cnew wrolling_core rmap]. rewrite wr_new_sc. reflexivity.
  - apply wr_step_sc.
  - apply wr_last_sc.
Qed.
Theorem wrolling_mean_scales vs :
  cout (@wrolling_mean_core R PO) (map (Rmult sc) vs) = rmap sco (cout (@wrolling_mean_core R PO) vs).
Proof.
  apply (cout_sim (@wrolling_mean_core R PO) sc wr_f sco).
  - cbn [cnew wrolling_mean_core rmap]. rewrite wr_new_sc. reflexivity.
  - apply wr_step_sc.
  - intros st. reflexivity.
Qed.

(** ** SuperSmoother *)
Definition ss_f (st : @ss_st R) : @ss_st R :=
  {| ss_i := ss_i st; ss_filt := sc * ss_filt st; ss_f1 := sc * ss_f1 st; ss_f2 := sc * ss_f2 st;
     ss_lastval := sc * ss_lastval st |}.

Lemma ss_step_sc k st v : @ss_step R PO k (ss_f st) (sc * v) = rmap ss_f (@ss_step R PO k st v).
Proof. destruct st as [i f f1 f2 lv]. unfold ss_step, ss_f. cbn [ss_i ss_filt ss_f1 ss_f2 ss_lastval]. crush. Qed.

Lemma ss_new_sc : ss_f (@ss_new R PO) = @ss_new R PO.
Proof. unfold ss_f, ss_new. cbn [ss_i ss_filt ss_f1 ss_f2 ss_lastval]. opsimp. rewrite !sc_0. reflexivity. Qed.

Lemma ss_lastf_sc n st : @ss_lastf R n (ss_f st) = rmap sco (@ss_lastf R n st).
Proof. destruct st as [i f f1 f2 lv]. unfold ss_lastf, ss_f. cbn [ss_i ss_filt]. destruct (Nat.ltb i n); reflexivity. Qed.

Definition ssc_f (st : @ss_coef R * @ss_st R) : @ss_coef R * @ss_st R := (fst st, ss_f (snd st)).

Theorem ss_scales n vs :
  cout (@ss_core R PO n) (map (Rmult sc) vs) = rmap sco (cout (@ss_core R PO n) vs).
Proof.
  apply (cout_sim (@ss_core R PO n) sc ssc_f sco).
  - cbn [cnew ss_core]. destruct (@ss_coefs R PO n); cbn [bind rmap]; [|reflexivity].
    unfold ssc_f. cbn [fst snd]. rewrite ss_new_sc. reflexivity.
  - intros [k st] v. cbn [cstep ss_core ssc_f fst snd]. rewrite ss_step_sc.
    destruct (@ss_step R PO k st v); reflexivity.
  - intros [k st]. cbn [clast ss_core ssc_f snd]. apply ss_lastf_sc.
Qed.

(** ** LaguerreFilter *)
Definition quad_sc (l : R * R * R * R) : R * R * R * R :=
  let '(a, b, c, d) := l in (sc * a, sc * b, sc * c, sc * d).

Lemma lag_ladder_sc g p v : @lag_ladder R PO g (quad_sc p) (sc * v) = quad_sc (@lag_ladder R PO g p v).
Proof. destruct p as [[[a b] c] d]. unfold lag_ladder, quad_sc. crush. Qed.

Lemma lag_out_sc l : @lag_out R PO (quad_sc l) = rmap (Rmult sc) (@lag_out R PO l).
Proof. destruct l as [[[a b] c] d]. unfold lag_out, quad_sc. crush. Qed.

Definition lag_f (st : @lag_st R) : @lag_st R :=
  {| lg_prev := option_map quad_sc (lg_prev st); lg_out := sco (lg_out st); lg_len := lg_len st |}.

Lemma laguerre_step_sc g st v : @laguerre_step R PO g (lag_f st) (sc * v) = rmap lag_f (@laguerre_step R PO g st v).
Proof.
  destruct st as [[p|] o k]; unfold laguerre_step, lag_f; cbn [lg_prev lg_out lg_len option_map].
  - rewrite lag_ladder_sc, lag_out_sc. destruct (@lag_out R PO _); reflexivity.
  - change (sc * v, sc * v, sc * v, sc * v) with (quad_sc (v, v, v, v)). rewrite lag_out_sc.
    destruct (@lag_out R PO _); reflexivity.
Qed.

Theorem laguerre_scales g vs :
  cout (@laguerre_core R PO g) (map (Rmult sc) vs) = rmap sco (cout (@laguerre_core R PO g) vs).
Proof.
  apply (cout_sim (@laguerre_core R PO g) sc lag_f sco).
  - reflexivity.
  - apply laguerre_step_sc.
  - intros st. reflexivity.
Qed.

(** ** RoofingFilter *)
Definition rf_f (st : @rf_st R) : @rf_st R :=
  {| rf_ss := ss_f (rf_ss st); rf_i := rf_i st; rf_v1 := sc * rf_v1 st; rf_v2 := sc * rf_v2 st;
     rf_hp1 := sc * rf_hp1 st; rf_hp2 := sc * rf_hp2 st |}.

Lemma rf_step_sc n al k st v : @rf_step R PO n al k (rf_f st) (sc * v) = rmap rf_f (@rf_step R PO n al k st v).
Proof.
  destruct st as [ss i v1 v2 h1 h2]. unfold rf_step, rf_f, ssq. cbn [rf_ss rf_i rf_v1 rf_v2 rf_hp1 rf_hp2].
  opsimp. destruct (Reqb (cdec 2 0) 0); cbn [bind rmap]; [reflexivity|]. sc_rw.
  destruct (Nat.ltb n i); cbn [bind rmap]; [|reflexivity].
  rewrite ss_step_sc. destruct (@ss_step R PO k ss _); reflexivity.
Qed.

Definition rfc_f (st : R * @ss_coef R * @rf_st R) : R * @ss_coef R * @rf_st R := (fst st, rf_f (snd st)).

Theorem roofing_scales n m vs :
  cout (@roofing_core R PO n m) (map (Rmult sc) vs) = rmap sco (cout (@roofing_core R PO n m) vs).
Proof.
  apply (cout_sim (@roofing_core R PO n m) sc rfc_f sco).
  - cbn [cnew roofing_core]. destruct (assert (Nat.leb 2 n)); cbn [bind rmap]; [|reflexivity].
    destruct (@rf_alpha R PO n); cbn [bind rmap]; [|reflexivity].
    destruct (@ss_coefs R PO m); cbn [bind rmap]; [|reflexivity].
    unfold rfc_f, rf_f. cbn [fst snd rf_ss rf_i rf_v1 rf_v2 rf_hp1 rf_hp2]. rewrite ss_new_sc. opsimp. rewrite !sc_0. reflexivity.
  - intros [[al k] st] v. cbn [cstep roofing_core rfc_f fst snd]. rewrite rf_step_sc.
    destruct (@rf_step R PO n al k st v); reflexivity.
  - intros [[al k] st]. cbn [clast roofing_core rfc_f snd]. destruct st as [ss i v1 v2 h1 h2]. cbn [rf_f rf_ss]. apply ss_lastf_sc.
Qed.

(** ** CyberCycle *)
Lemma cc_smooth_sc vals i : @cc_smooth R PO (scl vals) i = rmap (Rmult sc) (@cc_smooth R PO vals i).
Proof. unfold cc_smooth. crush. Qed.

Definition cc_f (st : R * @cc_st R) : R * @cc_st R :=
  (fst st, {| cc_vals := scl (cc_vals (snd st)); cc_out := scl (cc_out (snd st)) |}).

Lemma scl_zero : [0] = scl [0].
Proof. cbn. rewrite sc_0. reflexivity. Qed.

Lemma cc_step_sc n al st v :
  @cc_step R PO n al {| cc_vals := scl (cc_vals st); cc_out := scl (cc_out st) |} (sc * v)
  = rmap (fun st' => {| cc_vals := scl (cc_vals st'); cc_out := scl (cc_out st') |}) (@cc_step R PO n al st v).
Proof.
  destruct st as [vals out]. unfold cc_step, ssq. cbn [cc_vals cc_out]. sc_rw.
  destruct (Nat.leb n (length vals)); sc_rw;
  (match goal with |- context [Nat.ltb ?a n] => destruct (Nat.ltb a n) end;
   [ cbn [rmap cc_vals cc_out]; opsimp; rewrite scl_zero at 1; sc_rw; reflexivity
   | repeat (crush; rewrite ?cc_smooth_sc;
             try match goal with |- context [@cc_smooth R PO ?a ?b] => destruct (@cc_smooth R PO a b) end) ]).
Qed.

Theorem cyber_scales n vs :
  cout (@cyber_core R PO n) (map (Rmult sc) vs) = rmap sco (cout (@cyber_core R PO n) vs).
Proof.
  apply (cout_sim (@cyber_core R PO n) sc cc_f sco).
  - cbn [cnew cyber_core]. destruct (assert (Nat.leb 3 n)); cbn [bind rmap]; [|reflexivity].
    destruct (@sdiv R PO _ _); reflexivity.
  - intros [al st] v. cbn [cstep cyber_core cc_f fst snd]. rewrite cc_step_sc.
    destruct (@cc_step R PO n al st v); reflexivity.
  - intros [al st]. cbn [clast cyber_core cc_f snd cc_out rmap]. rewrite scl_last_opt. reflexivity.
Qed.

(** ** Alma: the Gaussian weights are the same in both runs; the weighted sum and the outputs scale *)
Definition al_f (st : R * @alma_st R) : R * @alma_st R :=
  (fst st, {| al_wsum := sc * al_wsum (snd st); al_cw := al_cw (snd st); al_qv := scl (al_qv (snd st));
              al_qw := al_qw (snd st); al_qo := scl (al_qo (snd st)) |}).

Lemma alma_step_sc n m s st v :
  @alma_step R PO n m s {| al_wsum := sc * al_wsum st; al_cw := al_cw st; al_qv := scl (al_qv st);
                           al_qw := al_qw st; al_qo := scl (al_qo st) |} (sc * v)
  = rmap (fun st' => {| al_wsum := sc * al_wsum st'; al_cw := al_cw st'; al_qv := scl (al_qv st');
                        al_qw := al_qw st'; al_qo := scl (al_qo st') |}) (@alma_step R PO n m s st v).
Proof.
  destruct st as [wsum cw qv qw qo]. unfold alma_step, ssq. cbn [al_wsum al_cw al_qv al_qw al_qo]. crush.
Qed.

Theorem alma_custom_scales n sigma offset vs :
  cout (@alma_core_custom R PO n sigma offset) (map (Rmult sc) vs)
  = rmap sco (cout (@alma_core_custom R PO n sigma offset) vs).
Proof.
  apply (cout_sim (@alma_core_custom R PO n sigma offset) sc al_f sco).
  - cbn [cnew alma_core_custom]. destruct (@sdiv R PO _ _); cbn [bind rmap]; [|reflexivity].
    unfold al_f. cbn [fst snd al_wsum al_cw al_qv al_qw al_qo]. opsimp. rewrite sc_0. reflexivity.
  - intros [s st] v. cbn [cstep alma_core_custom al_f fst snd]. rewrite alma_step_sc.
    destruct (@alma_step R PO n _ s st v); reflexivity.
  - intros [s st]. cbn [clast alma_core_custom al_f snd al_qo rmap]. rewrite scl_last_opt. reflexivity.
Qed.
Theorem alma_scales n vs :
  cout (@alma_core R PO n) (map (Rmult sc) vs) = rmap sco (cout (@alma_core R PO n) vs).
Proof. apply alma_custom_scales. Qed.

End Views.
