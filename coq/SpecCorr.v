(** Specifications for C06: CorrelationTrendIndicator (Pearson correlation of the windowed values with
    their time index), NoiseEliminationTechnology (Kendall's tau of values against time) and
    CenterOfGravity.  Functions of the history (oldest first); no proofs here. *)
From Coq Require Import List Arith Lia Bool.
From SF Require Import Res Scalar Spec.
Import ListNotations.
Set Implicit Arguments.

Section SpecCorr.
Context {T : Type} {OT : Ops T}.

(** total square root for specifications *)
Definition ssqrtd (a : T) : T := match ssqrt a with Ok r => r | Err _ => s0 end.

(** ** Pearson correlation of a list of points [(t, v)]:
    (N Stv - St Sv) / sqrt ((N Stt - St^2) (N Svv - Sv^2)) when both factors are > 0, else 0 *)
Definition pearson (pts : list (T * T)) : T :=
  let N := sofnat (length pts) in
  let St := ssum (map (fun p => fst p) pts) in
  let Sv := ssum (map (fun p => snd p) pts) in
  let Stt := ssum (map (fun p => smul (fst p) (fst p)) pts) in
  let Svv := ssum (map (fun p => smul (snd p) (snd p)) pts) in
  let Stv := ssum (map (fun p => smul (fst p) (snd p)) pts) in
  let vt := ssub (smul N Stt) (smul St St) in
  let vv := ssub (smul N Svv) (smul Sv Sv) in
  if sltb s0 vt && sltb s0 vv
  then sdivd (ssub (smul N Stv) (smul St Sv)) (ssqrtd (smul vt vv))
  else s0.

(** the window paired with its time index 0, 1, .., k-1 (oldest value has index 0) *)
Definition timed (w : list T) : list (T * T) := combine (map sofnat (seq 0 (length w))) w.

(** CTI: Pearson correlation between the windowed values and their time index *)
Definition spec_cti (n : nat) (h : list T) : option T := Some (pearson (timed (lastn n h))).

(** ** Kendall's tau against time *)
(** sign, with sign(0) = 0 *)
Definition ssgn (d : T) : T := if sltb s0 d then s1 else if sltb d s0 then sneg s1 else s0.

(** sum over all pairs i < j of sign (l_j - l_i): the head against every later value, then the rest *)
Fixpoint pairs_sign (l : list T) : T :=
  match l with
  | [] => s0
  | x :: r => sadd (ssum (map (fun y => ssgn (ssub y x)) r)) (pairs_sign r)
  end.

(** NET: Kendall's tau over the k(k-1)/2 pairs of the k values in the window; none before 2 values *)
Definition spec_net (n : nat) (h : list T) : option T :=
  let w := lastn n h in
  let k := sofnat (length w) in
  if Nat.ltb (length w) 2 then None
  else Some (sdivd (pairs_sign w) (sdivd (smul k (ssub k s1)) (sofnat 2))).

(** ** Center of gravity *)
(** sum_k k * x_(t-k+1), k = 1 for the newest value: the head of [v :: r] is the (length r + 1)-th newest *)
Fixpoint cog_num (l : list T) : T :=
  match l with
  | [] => s0
  | v :: r => sadd (smul (sofnat (S (length r))) v) (cog_num r)
  end.

(** CoG = (k+1)/2 - sum_k k x_(t-k+1) / sum_k x_(t-k+1) over the k values in the window; 0 when the
    denominator is 0 *)
Definition spec_cog (n : nat) (h : list T) : option T :=
  let w := lastn n h in
  match w with
  | [] => None
  | _ => let den := ssum w in
         Some (if seqb den s0 then s0
               else ssub (sdivd (sadd (sofnat (length w)) s1) (sofnat 2)) (sdivd (cog_num w) den))
  end.

End SpecCorr.
