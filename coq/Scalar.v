(** The scalar interface [Ops T] of the model (the counterpart of Rust's [T: num::Float]) and its
    instances: [R] (where the theorems are proved) and [Q] (where the model is executed against the
    implementation instantiated at exact rationals).  The carrier is a *parameter* of the class so
    that goals at the [R] instance are plain [Rplus]/[Rmult] terms for [lra]/[nra]/[field]. *)
From Coq Require Import ZArith QArith Qabs Qreduction Reals List Bool.
From SF Require Import Res Surrogate.
Import ListNotations.

Class Ops (T : Type) := {
  s0 : T; s1 : T;
  sadd : T -> T -> T; ssub : T -> T -> T; smul : T -> T -> T;
  sneg : T -> T; sabs : T -> T;
  sdiv : T -> T -> res T;           (* R, Q: [Err NonFinite] on a zero divisor *)
  sltb : T -> T -> bool; sleb : T -> T -> bool; seqb : T -> T -> bool;
  sofnat : nat -> T;                (* T::from(usize) *)
  sofdec : Z -> nat -> T;           (* T::from(m / 10^k as a decimal literal) *)
  ssqrt : T -> res T; sexp : T -> res T; sln : T -> res T; scos : T -> res T; ssin : T -> res T;
  stanh : T -> res T; slog2 : T -> res T;
}.

Section Derived.
Context {T : Type} {OT : Ops T}.
Definition sgtb (a b : T) : bool := sltb b a.
Definition sgeb (a b : T) : bool := sleb b a.
Definition sneb (a b : T) : bool := negb (seqb a b).
(** Rust: [signum(+0.0) = 1.0] *)
Definition ssignum (a : T) : T := if sltb a s0 then sneg s1 else s1.
Definition ssq (a : T) : T := smul a a.                (* powi(2) = 1 * a * a; see Exec note *)
Definition smax (a b : T) : T := if sgeb a b then a else b.
Definition smin (a b : T) : T := if sleb a b then a else b.
(** num_traits::clamp *)
Definition sclamp (x lo hi : T) : T := if sltb x lo then lo else if sgtb x hi then hi else x.
Definition s2 : T := sofdec 2 0.
End Derived.

(** * Q instance *)
Definition Qdiv_res (a b : Q) : res Q := if Qeq_bool b 0 then Err NonFinite else Ok (Qred (a / b)).
Definition Qltb (a b : Q) : bool := negb (Qle_bool b a).

Definition QOps_of (p : prec) : Ops Q := {|
  s0 := 0%Q; s1 := 1%Q;
  sadd := fun a b => Qred (a + b); ssub := fun a b => Qred (a - b); smul := fun a b => Qred (a * b);
  sneg := fun a => Qred (- a); sabs := fun a => Qred (Qabs a);
  sdiv := Qdiv_res;
  sltb := Qltb; sleb := Qle_bool; seqb := Qeq_bool;
  sofnat := fun n => inject_Z (Z.of_nat n);
  sofdec := fun m k => Qred (Qmake m (Z.to_pos (10 ^ Z.of_nat k)));
  ssqrt := fun x => if Qltb x 0 then Err Domain else Ok (sqrt_s p x);
  sexp := fun x => Ok (exp_s p x);
  sln := fun x => if Qle_bool x 0 then Err Domain else Ok (ln_s p x);
  scos := fun x => Ok (cos_s p x);
  ssin := fun x => Ok (sin_s p x);
  stanh := fun x => Ok (tanh_s p x);
  slog2 := fun x => if Qle_bool x 0 then Err Domain else Ok (log2_s p x);
|}.
#[export] Instance QOps : Ops Q := QOps_of prec_default.

(** * R instance *)
Open Scope R_scope.
Definition Rltb (a b : R) : bool := if Rlt_dec a b then true else false.
Definition Rleb (a b : R) : bool := if Rle_dec a b then true else false.
Definition Reqb (a b : R) : bool := if Req_EM_T a b then true else false.
Definition Rdiv_res (a b : R) : res R := if Req_EM_T b 0 then Err NonFinite else Ok (a / b).

#[export] Instance ROps : Ops R := {|
  s0 := 0; s1 := 1;
  sadd := Rplus; ssub := Rminus; smul := Rmult; sneg := Ropp; sabs := Rabs;
  sdiv := Rdiv_res;
  sltb := Rltb; sleb := Rleb; seqb := Reqb;
  sofnat := INR;
  sofdec := fun m k => IZR m / IZR (10 ^ Z.of_nat k);
  ssqrt := fun x => if Rlt_dec x 0 then Err Domain else Ok (sqrt x);
  sexp := fun x => Ok (exp x);
  sln := fun x => if Rle_dec x 0 then Err Domain else Ok (ln x);
  scos := fun x => Ok (cos x);
  ssin := fun x => Ok (sin x);
  stanh := fun x => Ok (tanh x);
  slog2 := fun x => if Rle_dec x 0 then Err Domain else Ok (ln x / ln 2);
|}.

Lemma Rltb_true a b : Rltb a b = true <-> a < b.
Proof. unfold Rltb; destruct (Rlt_dec a b); split; intros; try assumption; try reflexivity; try discriminate; contradiction. Qed.
Lemma Rltb_false a b : Rltb a b = false <-> b <= a.
Proof. unfold Rltb; destruct (Rlt_dec a b); split; intros; try discriminate; try reflexivity. exfalso; apply (Rlt_not_le _ _ r); assumption. apply Rnot_lt_le; assumption. Qed.
Lemma Rleb_true a b : Rleb a b = true <-> a <= b.
Proof. unfold Rleb; destruct (Rle_dec a b); split; intros; try assumption; try reflexivity; try discriminate; contradiction. Qed.
Lemma Rleb_false a b : Rleb a b = false <-> b < a.
Proof. unfold Rleb; destruct (Rle_dec a b); split; intros; try discriminate; try reflexivity. exfalso; apply (Rlt_not_le _ _ H); assumption. apply Rnot_le_lt; assumption. Qed.
Lemma Reqb_true a b : Reqb a b = true <-> a = b.
Proof. unfold Reqb; destruct (Req_EM_T a b); split; intros; try assumption; try reflexivity; try discriminate; contradiction. Qed.
Lemma Reqb_false a b : Reqb a b = false <-> a <> b.
Proof. unfold Reqb; destruct (Req_EM_T a b); split; intros; try assumption; try reflexivity; try discriminate; contradiction. Qed.
Lemma Rdiv_res_ok a b : b <> 0 -> Rdiv_res a b = Ok (a / b).
Proof. intros H; unfold Rdiv_res; destruct (Req_EM_T b 0); [contradiction|reflexivity]. Qed.
