(** C08 warm-up lengths as functions of the history (generic in the scalar, executable): a view
    "is ready" after the history [h] iff at least [warmup] values have been delivered to it. *)
From Coq Require Import List Arith Lia.
From SF Require Import Res Scalar.
Import ListNotations.
Set Implicit Arguments.

Section SpecSafe.
Context {T : Type} {OT : Ops T}.

(** ready after [h] iff [n0 <= length h] *)
Definition spec_ready (n0 : nat) (h : list T) : bool := Nat.leb n0 (length h).

(** Sma, Ema, SuperSmoother, Rsi, MyRSI: from the N-th value on *)
Definition wu_window (n : nat) : nat := n.
(** RoofingFilter(N, M): from value N+M+1 *)
Definition wu_roofing (n m : nat) : nat := n + m + 1.
(** LnReturn: from the 2nd value *)
Definition wu_lnret : nat := 2.
(** WelfordOnline, Vst, Vsct: (no earlier than) N-1 *)
Definition wu_welford (n : nat) : nat := n - 1.
(** Echo, Min, Max, Cumulative, Alma, CenterOfGravity, BinaryEntropy, GTE, LTE, LaguerreFilter: from the 1st value *)
Definition wu_first : nat := 1.

(** the domain of the inputs: all positive (Drawdown, LnReturn) *)
Definition spec_all_pos (h : list T) : bool := forallb (fun x => sltb s0 x) h.

End SpecSafe.
