(** Specifications of the whole-history ("rolling") views WelfordRolling, Drawdown, LnReturn (C13),
    as functions of the history (oldest value first).  Generic in the scalar; no proofs here. *)
From Coq Require Import List Arith.
From SF Require Import Res Scalar Spec.
Import ListNotations.
Set Implicit Arguments.

Section SpecRoll.
Context {T : Type} {OT : Ops T}.

(** total square root / logarithm for specifications (0 where the scalar's operation is undefined) *)
Definition ssqrtd (a : T) : T := match ssqrt a with Ok r => r | Err _ => s0 end.
Definition slnd (a : T) : T := match sln a with Ok r => r | Err _ => s0 end.

(** arithmetic mean of all values delivered so far *)
Definition spec_rmean (h : list T) : T := smean h.

(** sum of squared deviations from the mean, population variance, population standard deviation *)
Definition spec_rdev (h : list T) : T :=
  let m := smean h in ssum (map (fun x => ssq (ssub x m)) h).
Definition spec_rvar (h : list T) : T := sdivd (spec_rdev h) (sofnat (length h)).
Definition spec_rstd (h : list T) : T := ssqrtd (spec_rvar h).

(** Drawdown: one pass over the history carrying (running peak, largest relative decline so far);
    at value [x] the peak becomes [max peak x] and the decline at [x] is [(peak - x) / peak]. *)
Definition dd_acc (st : T * T) (x : T) : T * T :=
  let p := smax (fst st) x in (p, smax (snd st) (sdivd (ssub p x) p)).
Definition spec_drawdown (h : list T) : T :=
  match h with
  | [] => s0
  | x :: r => snd (fold_left dd_acc r (x, s0))
  end.

(** the same quantity literally from the property text: the maximum over all positions [j] of
    [(peak_j - x_j) / peak_j], [peak_j] the maximum of [x_0 .. x_j]; 0 for the empty history *)
Definition speak (l : list T) : T := match l with [] => s0 | x :: r => fold_left smax r x end.
Definition dd_at (h : list T) (j : nat) : T :=
  let p := speak (firstn (S j) h) in sdivd (ssub p (nth j h s0)) p.
Definition spec_drawdown_def (h : list T) : T :=
  fold_left smax (map (dd_at h) (seq 0 (length h))) s0.

(** LnReturn: ln (x_t / x_(t-1)); nothing before two values were delivered *)
Definition spec_lnreturn (h : list T) : option T :=
  match rev h with
  | x :: y :: _ => Some (slnd (sdivd x y))
  | _ => None
  end.

End SpecRoll.
