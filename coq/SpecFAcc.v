(** Side-condition functions of the f64 accuracy theorems (C16, recomputing views), as functions of the history
    (oldest value first).  No proofs, generic in the scalar, executable at [Q]. *)
From Coq Require Import List Arith Bool ZArith.
From SF Require Import Res Scalar Spec SpecHln SpecRsi.
Import ListNotations.
Set Implicit Arguments.

Section SpecFAcc.
Context {T : Type} {OT : Ops T}.

(** HLNormalizer: [max - min] over the window [lastn n h] (0 on the empty history) *)
Definition spec_extent (n : nat) (h : list T) : T :=
  match lastn n h with
  | [] => s0
  | f :: r => ssub (wmax f r) (wmin f r)
  end.

(** largest magnitude in a list (0 for the empty list) *)
Definition maxabs (l : list T) : T := fold_left (fun m v => if sgtb (sabs v) m then sabs v else m) l s0.

End SpecFAcc.
