(** Executable side of the correspondence check: schedules of update / last / clone operations over
    instances of a view, evaluated at the [Q] instance with [vm_compute] and compared inside Coq with
    what the implementation answered (exact equality of fractions). *)
From Coq Require Import List Arith ZArith QArith Qreduction Bool.
From SF Require Import Res Surrogate Scalar View Models.
Import ListNotations.
Set Implicit Arguments.
Local Open Scope nat_scope.

Inductive op (T : Type) := OU (i : nat) (x : T) | OL (i : nat) | OC (i : nat).
Arguments OL {T}. Arguments OC {T}.

(** what one operation shows: [XN] None, [XS v] Some v, [XE] panic or non-finite, [XX] the instance
    is dead (an earlier operation on it failed), [XC] clone taken *)
Inductive xo (T : Type) := XN | XS (v : T) | XE | XX | XC.
Arguments XN {T}. Arguments XE {T}. Arguments XX {T}. Arguments XC {T}.

Section Sched.
Variable T : Type.
Variable v : view T.

Definition insts := list (option (vst v)).

Fixpoint set_nth (l : insts) (i : nat) (x : option (vst v)) : insts :=
  match l, i with
  | [], _ => []
  | _ :: r, O => x :: r
  | y :: r, S j => y :: set_nth r j x
  end.

Definition get_inst (l : insts) (i : nat) : option (vst v) :=
  match nth_error l i with Some (Some s) => Some s | _ => None end.

(** one operation: new instance table, observation, population after the operation *)
Definition sched_step (l : insts) (o : op T) : insts * (xo T * nat) :=
  match o with
  | OU i x =>
      match get_inst l i with
      | None => (l, (XX, 0))
      | Some s =>
          match vupd v s x with
          | Err _ => (set_nth l i None, (XE, 0))
          | Ok s' =>
              match vlast v s' with
              | Err _ => (set_nth l i None, (XE, 0))
              | Ok None => (set_nth l i (Some s'), (XN, vpop v s'))
              | Ok (Some y) => (set_nth l i (Some s'), (XS y, vpop v s'))
              end
          end
      end
  | OL i =>
      match get_inst l i with
      | None => (l, (XX, 0))
      | Some s =>
          match vlast v s with
          | Err _ => (set_nth l i None, (XE, 0))
          | Ok None => (l, (XN, 0))
          | Ok (Some y) => (l, (XS y, 0))
          end
      end
  | OC i =>
      match get_inst l i with
      | None => (l ++ [None], (XX, 0))
      | Some s => (l ++ [Some s], (XC, 0))
      end
  end.

Fixpoint sched_run (l : insts) (ops : list (op T)) : list (xo T * nat) :=
  match ops with
  | [] => []
  | o :: r => let '(l', ob) := sched_step l o in ob :: sched_run l' r
  end.

(** [None]: the constructor failed *)
Definition sched (ops : list (op T)) : option (list (xo T * nat)) :=
  match vnew v with
  | Err _ => None
  | Ok s => Some (sched_run [Some s] ops)
  end.
End Sched.

(** literal helper used by generated case files: [q n d] is the fraction n/d *)
Definition q (n : Z) (d : positive) : Q := Qmake n d.
Arguments q (_%Z) (_%positive).

(** * Comparison at Q *)
Definition xo_eqb (a b : xo Q) : bool :=
  match a, b with
  | XN, XN | XE, XE | XX, XX | XC, XC => true
  | XS x, XS y => Qeq_bool x y
  | _, _ => false
  end.

Record case := mkcase {
  c_desc : desc Q;
  c_ops : list (op Q);
  c_ctor_ok : bool;                   (* implementation: constructor did not panic *)
  c_exp : list (xo Q * nat);          (* implementation: observation and buffer population per op *)
}.

(** index (from 1) of the first operation whose observation differs; 0 if none *)
Fixpoint first_diff (k : Z) (m e : list (xo Q * nat)) : Z :=
  match m, e with
  | [], [] => 0%Z
  | a :: m', b :: e' => if xo_eqb (fst a) (fst b) then first_diff (k + 1)%Z m' e' else k
  | _, _ => k
  end.

Fixpoint pop_diffs (m e : list (xo Q * nat)) : Z :=
  match m, e with
  | a :: m', b :: e' => (if Nat.eqb (snd a) (snd b) then 0 else 1) + pop_diffs m' e'
  | _, _ => 0
  end%Z.

(** result per case: (first differing op or 0, number of population differences);
    a constructor disagreement is reported as op index -1 *)
Definition check_case (c : case) : Z * Z :=
  match sched (denote (c_desc c)) (c_ops c), c_ctor_ok c with
  | None, false => (0, 0)%Z
  | None, true | Some _, false => (-1, 0)%Z
  | Some m, true => (first_diff 1%Z m (c_exp c), pop_diffs m (c_exp c))
  end.

Definition check_cases (cs : list case) : list (Z * Z) := map check_case cs.

(** printing the model's own answers (for replay files) *)
Definition show_xo (o : xo Q * nat) : Z * Z * Z * Z :=
  match fst o with
  | XN => (0, 0, 1, Z.of_nat (snd o))
  | XS q => let q := Qred q in (1, Qnum q, Zpos (Qden q), Z.of_nat (snd o))
  | XE => (2, 0, 1, 0) | XX => (3, 0, 1, 0) | XC => (4, 0, 1, 0)
  end%Z.
Definition show_case (c : case) : option (list (Z * Z * Z * Z)) :=
  match sched (denote (c_desc c)) (c_ops c) with None => None | Some m => Some (map show_xo m) end.

(** soundness of the comparison: a green check means the model reproduces every observation *)
Lemma first_diff_0 k m e : (0 < k)%Z -> first_diff k m e = 0%Z ->
  length m = length e /\ forall i a b, nth_error m i = Some a -> nth_error e i = Some b -> xo_eqb (fst a) (fst b) = true.
Proof.
  revert k e; induction m as [|a m IH]; intros k e Hk H; destruct e as [|b e]; cbn in *.
  - split; [reflexivity|]. intros i ? ? Hi; destruct i; discriminate.
  - subst; exfalso. apply (Z.lt_irrefl 0); assumption.
  - subst; exfalso. apply (Z.lt_irrefl 0); assumption.
  - destruct (xo_eqb (fst a) (fst b)) eqn:E.
    + destruct (IH (k + 1)%Z e) as [Hl Hn]; [apply Z.lt_lt_succ_r; assumption | assumption |].
      split; [f_equal; assumption|]. intros i x y Hx Hy. destruct i; cbn in *.
      * inversion Hx; inversion Hy; subst; assumption.
      * eapply Hn; eassumption.
    + subst; exfalso. apply (Z.lt_irrefl 0); assumption.
Qed.
