(** Shape predicates and acceptance tests used by the floating-point statements (C16, ulps clause of
    C07), as boolean functions generic in the scalar (executable at [Q] and at [float]).  No proofs. *)
From Coq Require Import List Arith ZArith.
From SF Require Import Res Scalar Spec.
Import ListNotations.

Section SpecFlt.
Context {T : Type} {OT : Ops T}.

(** every value is finite and of magnitude at most [B] (at [float]: false for NaN and infinities) *)
Definition sall_absleb (B : T) (xs : list T) : bool := forallb (fun x => sleb (sabs x) B) xs.

(** the stream ends with at least [k] identical values *)
Definition flat_tailb (k : nat) (xs : list T) : bool :=
  match rev xs with
  | [] => false
  | c :: _ => Nat.leb k (length xs) && forallb (fun x => seqb x c) (lastn k xs)
  end.

(** C16's acceptance test for a flat window: [v] is within 1e-4 of [scale] of the exact answer *)
Definition c16_flat_ok (exact scale v : T) : bool := sleb (sabs (ssub v exact)) (smul (sofdec 1%Z 4) scale).

(** [v] is farther than [tol] from [c] (false when [v] is NaN) *)
Definition sfarb (v c tol : T) : bool := sltb tol (sabs (ssub v c)).

End SpecFlt.
