#!/usr/bin/env python3
"""Which lines of /repo/src do the checks' cases execute?  Builds the executor with -C instrument-coverage (nightly toolchain's
llvm-tools), runs the quick tier of the given checks (default: all 18) with VERIF_SKIP_PROOFS=1, merges the profiles and writes
/verif/coverage/REPORT.md: per file line / region / branch totals and every line of a view's update()/last()/new() that no case
executed.  Supporting evidence about generator quality (the correspondence can only compare what the cases reach); it is not
part of any registered command."""
import os, sys, subprocess, json, glob, shutil
ROOT = "/verif"
BUILD = os.path.join(ROOT, ".build")
BIN = os.path.expanduser("~/.rustup/toolchains/nightly-x86_64-unknown-linux-gnu/lib/rustlib/x86_64-unknown-linux-gnu/bin")
def main():
    props = sys.argv[1:] or ["C%02d" % i for i in range(1, 19)]
    shutil.rmtree(os.path.join(BUILD, "cov"), ignore_errors=True)
    env = dict(os.environ, VERIF_COVERAGE="1", VERIF_SKIP_PROOFS="1", VERIF_NO_SEARCH="1", VERIF_EVIDENCE_DIR="/tmp/cov_ev", VERIF_REPLAY_DIR="/tmp/cov_rp")
    for p in props:
        r = subprocess.run(["./check", p, "--tier", "quick"], cwd=ROOT, env=env, stdout=subprocess.PIPE, stderr=subprocess.STDOUT, text=True)
        print(p, "exit", r.returncode, flush=True)
    raws = glob.glob(os.path.join(BUILD, "cov", "*.profraw"))
    prof = os.path.join(BUILD, "cov", "all.profdata")
    subprocess.run([os.path.join(BIN, "llvm-profdata"), "merge", "-sparse", "-o", prof] + raws, check=True)
    objs = []
    for prof_ in ("debug", "release"):
        e = os.path.join(BUILD, "target_cov", prof_, "verif_harness")
        if os.path.exists(e):
            objs += ["-object", e]
    objs = objs[1:]      # the first object is positional
    r = subprocess.run([os.path.join(BIN, "llvm-cov"), "export", "-format=text", "-instr-profile", prof] + objs + ["/repo/src"], stdout=subprocess.PIPE, text=True)
    data = json.loads(r.stdout)["data"][0]
    os.makedirs(os.path.join(ROOT, "coverage"), exist_ok=True)
    lines = ["# Source coverage of /repo/src under the quick tier of %s" % " ".join(props), "",
             "| file | lines | covered | regions | covered | uncovered lines (executable, count 0 in every instantiation) |", "|---|---|---|---|---|---|"]
    tot = [0, 0]
    for f in sorted(data["files"], key=lambda f: f["filename"]):
        name = f["filename"].replace("/repo/", "")
        if "/src/" not in f["filename"] or name.endswith("mod.rs") or name.endswith("lib.rs"):
            continue
        s = f["summary"]
        # segments: [line, col, count, has_count, is_region_entry, is_gap]
        cnt = {}
        for seg in f["segments"]:
            ln, col, c, has, entry, gap = seg[:6]
            if has and not gap:
                cnt[ln] = max(cnt.get(ln, 0), c)
        src = open(f["filename"]).read().split("\n")
        in_test = None
        for i, l in enumerate(src):
            if "#[cfg(test)]" in l:
                in_test = i + 1
                break
        unc = sorted(ln for ln, c in cnt.items() if c == 0 and (in_test is None or ln < in_test))
        tot[0] += s["lines"]["count"]; tot[1] += s["lines"]["covered"]
        lines.append("| %s | %d | %d | %d | %d | %s |" % (name, s["lines"]["count"], s["lines"]["covered"], s["regions"]["count"], s["regions"]["covered"],
                                                      ", ".join("%d: `%s`" % (ln, src[ln - 1].strip()[:70].replace("|", "\\|")) for ln in unc[:12])))
    lines.append("")
    lines.append("Totals include the crate's own #[cfg(test)] modules (never executed here); the last column lists non-test lines only.")
    open(os.path.join(ROOT, "coverage", "REPORT.md"), "w").write("\n".join(lines) + "\n")
    print("\n".join(lines))
if __name__ == "__main__":
    main()
