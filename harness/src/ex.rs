//! Exact scalar `Ex`: a `Copy` handle into a thread-local arena of `BigRational`s, so that
//! /repo's generic `T: num::Float` code can be run in exact rational arithmetic.
//!
//! * `+ - * /`, comparisons, `abs`, `signum`, `powi`, `min`, `max`, `clamp` are exact.
//! * A division by zero, `ln`/`log2` of a non-positive number, `sqrt` of a negative number give the
//!   poison value NaN (propagates; compares false; `is_finite()` is false).
//! * `exp cos sin ln log2 tanh sqrt` are *surrogates*: deterministic fixed-point algorithms over
//!   `BigInt`, specified in coq/Surrogate.v and implemented there identically over `Z`.  They
//!   approximate the real functions to about 2^-P but all that the correspondence check needs is
//!   that both sides compute the same rational.
//! * `NumCast::from(f64)` converts through the shortest round-trip decimal, so `T::from(0.04)` is 1/25.
use num::bigint::BigInt;
use num::integer::Integer;
use num::rational::BigRational;
use num::traits::{Num, NumCast, One, Signed, ToPrimitive, Zero};
use num::Float;
use std::cell::{Cell, RefCell};
use std::num::FpCategory;
use std::ops::*;

#[derive(Clone, Copy)]
pub struct Ex(u32);
const NAN: u32 = u32::MAX;
const PINF: u32 = u32::MAX - 1;
const NINF: u32 = u32::MAX - 2;

thread_local! {
    static ARENA: RefCell<Vec<BigRational>> = RefCell::new(Vec::new());
    /// hash-consing: equal values share one arena slot, so memory grows with the number of DISTINCT values of a run
    static INTERN: RefCell<std::collections::HashMap<BigRational, u32>> = RefCell::new(std::collections::HashMap::new());
    /// (F, P): working fractional bits and output grid bits of the surrogates
    static PREC: Cell<(u32, u32)> = Cell::new((48, 32));
}
pub fn arena_reset() {
    ARENA.with(|a| a.borrow_mut().clear());
    INTERN.with(|m| m.borrow_mut().clear());
}
pub fn set_prec(f: u32, p: u32) {
    PREC.with(|c| c.set((f, p)));
}
fn prec() -> (u32, u32) {
    PREC.with(|c| c.get())
}
fn mk(r: BigRational) -> Ex {
    if let Some(id) = INTERN.with(|m| m.borrow().get(&r).copied()) {
        return Ex(id);
    }
    ARENA.with(|a| {
        let mut a = a.borrow_mut();
        a.push(r.clone());
        let id = (a.len() - 1) as u32;
        INTERN.with(|m| m.borrow_mut().insert(r, id));
        Ex(id)
    })
}
impl Ex {
    pub fn rat(self) -> Option<BigRational> {
        if self.0 >= NINF {
            None
        } else {
            Some(ARENA.with(|a| a.borrow()[self.0 as usize].clone()))
        }
    }
    pub fn from_rat(r: BigRational) -> Ex {
        mk(r)
    }
    pub fn show(self) -> String {
        match self.0 {
            NAN => "NaN".into(),
            PINF => "+Inf".into(),
            NINF => "-Inf".into(),
            _ => {
                let r = self.rat().unwrap();
                format!("{}/{}", r.numer(), r.denom())
            }
        }
    }
    pub fn from_dec(s: &str) -> Ex {
        // shortest round-trip decimal of an f64 (Rust's Display never uses an exponent)
        let neg = s.starts_with('-');
        let s = s.trim_start_matches('-');
        assert!(!s.contains('e') && !s.contains("inf") && !s.contains("NaN"), "unsupported literal {s}");
        let (ip, fp) = match s.split_once('.') {
            Some((a, b)) => (a, b),
            None => (s, ""),
        };
        let num: BigInt = format!("{ip}{fp}").parse().unwrap();
        let den: BigInt = num::pow(BigInt::from(10), fp.len());
        let r = BigRational::new(num, den);
        mk(if neg { -r } else { r })
    }
}
fn un(a: Ex, f: impl FnOnce(BigRational) -> Option<BigRational>) -> Ex {
    match a.rat() {
        Some(r) => f(r).map(mk).unwrap_or(Ex(NAN)),
        None => Ex(NAN),
    }
}
fn bin(a: Ex, b: Ex, f: impl FnOnce(BigRational, BigRational) -> Option<BigRational>) -> Ex {
    match (a.rat(), b.rat()) {
        (Some(x), Some(y)) => f(x, y).map(mk).unwrap_or(Ex(NAN)),
        _ => Ex(NAN),
    }
}
impl Add for Ex {
    type Output = Ex;
    fn add(self, o: Ex) -> Ex {
        bin(self, o, |a, b| Some(a + b))
    }
}
impl Sub for Ex {
    type Output = Ex;
    fn sub(self, o: Ex) -> Ex {
        bin(self, o, |a, b| Some(a - b))
    }
}
impl Mul for Ex {
    type Output = Ex;
    fn mul(self, o: Ex) -> Ex {
        bin(self, o, |a, b| Some(a * b))
    }
}
impl Div for Ex {
    type Output = Ex;
    fn div(self, o: Ex) -> Ex {
        bin(self, o, |a, b| if b.is_zero() { None } else { Some(a / b) })
    }
}
impl Rem for Ex {
    type Output = Ex;
    fn rem(self, _: Ex) -> Ex {
        unimplemented!()
    }
}
impl Neg for Ex {
    type Output = Ex;
    fn neg(self) -> Ex {
        un(self, |a| Some(-a))
    }
}
impl PartialEq for Ex {
    fn eq(&self, o: &Ex) -> bool {
        match (self.rat(), o.rat()) {
            (Some(a), Some(b)) => a == b,
            _ => false,
        }
    }
}
impl PartialOrd for Ex {
    fn partial_cmp(&self, o: &Ex) -> Option<std::cmp::Ordering> {
        match (self.rat(), o.rat()) {
            (Some(a), Some(b)) => a.partial_cmp(&b),
            _ => None,
        }
    }
}
impl std::fmt::Debug for Ex {
    fn fmt(&self, f: &mut std::fmt::Formatter<'_>) -> std::fmt::Result {
        write!(f, "{}", self.show())
    }
}
impl Zero for Ex {
    fn zero() -> Ex {
        mk(BigRational::zero())
    }
    fn is_zero(&self) -> bool {
        self.rat().map(|r| r.is_zero()).unwrap_or(false)
    }
}
impl One for Ex {
    fn one() -> Ex {
        mk(BigRational::one())
    }
}
impl Num for Ex {
    type FromStrRadixErr = ();
    fn from_str_radix(_: &str, _: u32) -> Result<Ex, ()> {
        Err(())
    }
}
impl ToPrimitive for Ex {
    fn to_i64(&self) -> Option<i64> {
        self.rat().and_then(|r| r.to_integer().to_i64())
    }
    fn to_u64(&self) -> Option<u64> {
        self.rat().and_then(|r| r.to_integer().to_u64())
    }
    fn to_f64(&self) -> Option<f64> {
        self.rat().and_then(|r| r.to_f64())
    }
}
impl NumCast for Ex {
    fn from<N: ToPrimitive>(n: N) -> Option<Ex> {
        let f = n.to_f64()?;
        Some(Ex::from_dec(&format!("{}", f)))
    }
}

// ------------------------------------------------------------------ surrogates (see coq/Surrogate.v)
const E_DEC: &str = "271828182845904523536028747135266249775724709369995";
const EINV_DEC: &str = "036787944117144232159552377016146086744581113103176";
const LN2_DEC: &str = "069314718055994530941723212145817656807550013436025";
const TERMS: u32 = 40;
fn pow2(k: u32) -> BigInt {
    BigInt::one() << (k as usize)
}
/// constant given as 51 decimal digits d0.d1..d50 -> floor(c * 2^F)
fn const_fix(dec: &str, f: u32) -> BigInt {
    let n: BigInt = dec.parse().unwrap();
    (n * pow2(f)).div_floor(&num::pow(BigInt::from(10), 50))
}
fn tofix(r: &BigRational, f: u32) -> BigInt {
    (r.numer() * pow2(f)).div_floor(r.denom())
}
fn mulfix(a: &BigInt, b: &BigInt, f: u32) -> BigInt {
    (a * b).div_floor(&pow2(f))
}
fn outgrid(v: &BigInt, f: u32, p: u32) -> BigRational {
    BigRational::new(v.div_floor(&pow2(f - p)), pow2(p))
}
/// e^x in F-fixed point, x any rational
fn exp_fix(x: &BigRational, f: u32) -> BigInt {
    let n = x.floor().to_integer();
    let fr = x - BigRational::from_integer(n.clone());
    let xf = tofix(&fr, f);
    let mut term = pow2(f);
    let mut sum = pow2(f);
    for i in 1..=TERMS {
        term = mulfix(&term, &xf, f).div_floor(&BigInt::from(i));
        sum += &term;
    }
    let base = if n.is_negative() { const_fix(EINV_DEC, f) } else { const_fix(E_DEC, f) };
    let mut pw = pow2(f);
    let cnt = n.abs().to_u64().expect("exp argument too large");
    for _ in 0..cnt {
        pw = mulfix(&pw, &base, f);
    }
    mulfix(&pw, &sum, f)
}
fn exp_s(x: &BigRational) -> BigRational {
    let (f, p) = prec();
    let v = exp_fix(x, f).div_floor(&pow2(f - p));
    let v = if v < BigInt::one() { BigInt::one() } else { v };
    BigRational::new(v, pow2(p))
}
/// (cos|x|, sin|x|) in F-fixed point by Taylor series
fn cossin_fix(x: &BigRational, f: u32) -> (BigInt, BigInt) {
    let xf = tofix(&x.abs(), f);
    let mut c = pow2(f);
    let mut s = xf.clone();
    let mut tc = pow2(f);
    let mut ts = xf.clone();
    for k in 0..TERMS {
        let k = k as u64;
        tc = mulfix(&mulfix(&tc, &xf, f), &xf, f).div_floor(&BigInt::from((2 * k + 1) * (2 * k + 2)));
        ts = mulfix(&mulfix(&ts, &xf, f), &xf, f).div_floor(&BigInt::from((2 * k + 2) * (2 * k + 3)));
        if k % 2 == 0 {
            c -= &tc;
            s -= &ts;
        } else {
            c += &tc;
            s += &ts;
        }
    }
    (c, s)
}
fn cos_s(x: &BigRational) -> BigRational {
    let (f, p) = prec();
    outgrid(&cossin_fix(x, f).0, f, p)
}
fn sin_s(x: &BigRational) -> BigRational {
    let (f, p) = prec();
    let s = cossin_fix(x, f).1;
    outgrid(&(if x.is_negative() { -s } else { s }), f, p)
}
/// ln x in F-fixed point, x > 0
fn ln_fix(x: &BigRational, f: u32) -> BigInt {
    let k0 = x.numer().bits() as i64 - x.denom().bits() as i64;
    let two = BigRational::from_integer(BigInt::from(2));
    let scale = |k: i64| if k >= 0 { BigRational::from_integer(pow2(k as u32)) } else { BigRational::new(BigInt::one(), pow2((-k) as u32)) };
    let mut m = x / scale(k0);
    let mut k = k0;
    if m < BigRational::one() {
        m = m * &two;
        k -= 1;
    }
    let z = (&m - BigRational::one()) / (&m + BigRational::one());
    let zf = tofix(&z, f);
    let mut u = zf.clone();
    let mut s = zf.clone();
    for i in 1..=TERMS {
        u = mulfix(&mulfix(&u, &zf, f), &zf, f);
        s += u.div_floor(&BigInt::from(2 * i + 1));
    }
    BigInt::from(k) * const_fix(LN2_DEC, f) + BigInt::from(2) * s
}
fn ln_s(x: &BigRational) -> BigRational {
    let (f, p) = prec();
    outgrid(&ln_fix(x, f), f, p)
}
fn log2_s(x: &BigRational) -> BigRational {
    let (f, p) = prec();
    let v = (ln_fix(x, f) * pow2(f)).div_floor(&const_fix(LN2_DEC, f));
    outgrid(&v, f, p)
}
fn sqrt_s(x: &BigRational) -> BigRational {
    let (_, p) = prec();
    BigRational::new(tofix(x, 2 * p).sqrt(), pow2(p))
}
fn tanh_s(x: &BigRational) -> BigRational {
    let (f, p) = prec();
    // saturate: beyond |x| = 20 the result is constant (keeps the exponent small)
    let lim = BigRational::from_integer(BigInt::from(20));
    let x = &(if *x > lim { lim.clone() } else if *x < -lim.clone() { -lim.clone() } else { x.clone() });
    let e2 = exp_fix(&(x * BigRational::from_integer(BigInt::from(2))), f);
    let v = ((&e2 - pow2(f)) * pow2(f)).div_floor(&(&e2 + pow2(f)));
    outgrid(&v, f, p)
}
pub fn surrogate(name: &str, x: &BigRational) -> Option<BigRational> {
    Some(match name {
        "exp" => exp_s(x),
        "cos" => cos_s(x),
        "sin" => sin_s(x),
        "tanh" => tanh_s(x),
        "ln" => {
            if !x.is_positive() {
                return None;
            }
            ln_s(x)
        }
        "log2" => {
            if !x.is_positive() {
                return None;
            }
            log2_s(x)
        }
        "sqrt" => {
            if x.is_negative() {
                return None;
            }
            sqrt_s(x)
        }
        _ => panic!("unknown surrogate {name}"),
    })
}

impl Float for Ex {
    fn nan() -> Ex {
        Ex(NAN)
    }
    fn infinity() -> Ex {
        Ex(PINF)
    }
    fn neg_infinity() -> Ex {
        Ex(NINF)
    }
    fn neg_zero() -> Ex {
        Ex::zero()
    }
    fn min_value() -> Ex {
        mk(-BigRational::from_integer(num::pow(BigInt::from(10), 400)))
    }
    fn max_value() -> Ex {
        mk(BigRational::from_integer(num::pow(BigInt::from(10), 400)))
    }
    fn min_positive_value() -> Ex {
        unimplemented!()
    }
    fn is_nan(self) -> bool {
        self.0 == NAN
    }
    fn is_infinite(self) -> bool {
        self.0 == PINF || self.0 == NINF
    }
    fn is_finite(self) -> bool {
        self.0 < NINF
    }
    fn is_normal(self) -> bool {
        self.is_finite() && !self.is_zero()
    }
    fn classify(self) -> FpCategory {
        unimplemented!()
    }
    fn floor(self) -> Ex {
        un(self, |a| Some(a.floor()))
    }
    fn ceil(self) -> Ex {
        un(self, |a| Some(a.ceil()))
    }
    fn round(self) -> Ex {
        un(self, |a| Some(a.round()))
    }
    fn trunc(self) -> Ex {
        un(self, |a| Some(a.trunc()))
    }
    fn fract(self) -> Ex {
        un(self, |a| Some(a.fract()))
    }
    fn abs(self) -> Ex {
        un(self, |a| Some(a.abs()))
    }
    fn signum(self) -> Ex {
        un(self, |a| Some(if a.is_negative() { -BigRational::one() } else { BigRational::one() }))
    }
    fn is_sign_positive(self) -> bool {
        self.rat().map(|a| !a.is_negative()).unwrap_or(false)
    }
    fn is_sign_negative(self) -> bool {
        self.rat().map(|a| a.is_negative()).unwrap_or(false)
    }
    fn mul_add(self, a: Ex, b: Ex) -> Ex {
        self * a + b
    }
    fn recip(self) -> Ex {
        Ex::one() / self
    }
    fn powi(self, n: i32) -> Ex {
        assert!(n >= 0);
        let mut r = Ex::one();
        for _ in 0..n {
            r = r * self;
        }
        r
    }
    fn powf(self, _: Ex) -> Ex {
        unimplemented!()
    }
    fn sqrt(self) -> Ex {
        un(self, |a| surrogate("sqrt", &a))
    }
    fn exp(self) -> Ex {
        un(self, |a| surrogate("exp", &a))
    }
    fn exp2(self) -> Ex {
        unimplemented!()
    }
    fn ln(self) -> Ex {
        un(self, |a| surrogate("ln", &a))
    }
    fn log(self, _: Ex) -> Ex {
        unimplemented!()
    }
    fn log2(self) -> Ex {
        un(self, |a| surrogate("log2", &a))
    }
    fn log10(self) -> Ex {
        unimplemented!()
    }
    fn max(self, o: Ex) -> Ex {
        if self >= o {
            self
        } else {
            o
        }
    }
    fn min(self, o: Ex) -> Ex {
        if self <= o {
            self
        } else {
            o
        }
    }
    fn abs_sub(self, _: Ex) -> Ex {
        unimplemented!()
    }
    fn cbrt(self) -> Ex {
        unimplemented!()
    }
    fn hypot(self, _: Ex) -> Ex {
        unimplemented!()
    }
    fn sin(self) -> Ex {
        un(self, |a| surrogate("sin", &a))
    }
    fn cos(self) -> Ex {
        un(self, |a| surrogate("cos", &a))
    }
    fn tan(self) -> Ex {
        unimplemented!()
    }
    fn asin(self) -> Ex {
        unimplemented!()
    }
    fn acos(self) -> Ex {
        unimplemented!()
    }
    fn atan(self) -> Ex {
        unimplemented!()
    }
    fn atan2(self, _: Ex) -> Ex {
        unimplemented!()
    }
    fn sin_cos(self) -> (Ex, Ex) {
        (self.sin(), self.cos())
    }
    fn exp_m1(self) -> Ex {
        unimplemented!()
    }
    fn ln_1p(self) -> Ex {
        unimplemented!()
    }
    fn sinh(self) -> Ex {
        unimplemented!()
    }
    fn cosh(self) -> Ex {
        unimplemented!()
    }
    fn tanh(self) -> Ex {
        un(self, |a| surrogate("tanh", &a))
    }
    fn asinh(self) -> Ex {
        unimplemented!()
    }
    fn acosh(self) -> Ex {
        unimplemented!()
    }
    fn atanh(self) -> Ex {
        unimplemented!()
    }
    fn integer_decode(self) -> (u64, i16, i8) {
        unimplemented!()
    }
}
