//! Executor: builds views of /repo's crate from textual descriptors, runs operation schedules at the
//! exact scalar `Ex` or at `f64`, and prints what the implementation answered.  All case generation,
//! comparison and reporting is done by /verif/check (python) and by Coq; this program only executes.
//!
//! stdin, one case per line:   <id> <mode> <desc> ; <op> <op> ...
//!   mode: ex | f64 | f32 (f32 values are printed widened to f64 bits)
//!   op:   u<i>=<val>   update instance i, then observe last() and the buffer population
//!         v<i>=<val>   update instance i, then observe last() only (no Debug dump)
//!         q<i>=<val>   update instance i without observing (prints `-`; `E` if it failed)
//!         l<i>         observe last() of instance i
//!         c<i>         clone instance i (the clone gets the next free index)
//!   val:  n/d (decimal integers)           -- at f64 the value is (n as f64)/(d as f64); or x<16 hex digits> (f64 bits)
//! stdout: <id> K|KE  <obs> ...   obs: N | S:<n>/<d> | S:x<16 hex digits> | E (panic / non-finite) | X (dead)
//!         `u` prints <obs>@<elements in all [..] of the Debug dump>; `c` prints C or CE
//!         after the ops, one token P<k>=[v,v,...] per Probe leaf.
mod ex;
use ex::Ex;
use num::bigint::BigInt;
use num::rational::BigRational;
use num::Float;
use sliding_features::{pure_functions::*, rolling::*, sliding_windows::*, View};
use std::alloc::{GlobalAlloc, Layout, System};
use std::cell::RefCell;
use std::fmt::Debug;
use std::io::{BufRead, Write};
use std::panic::{catch_unwind, AssertUnwindSafe};
use std::rc::Rc;
use std::sync::atomic::{AtomicIsize, Ordering};

// ---------------------------------------------------------------- counting allocator (C18, `mem` mode)
struct Counting;
static LIVE: AtomicIsize = AtomicIsize::new(0);
unsafe impl GlobalAlloc for Counting {
    unsafe fn alloc(&self, l: Layout) -> *mut u8 {
        LIVE.fetch_add(l.size() as isize, Ordering::Relaxed);
        System.alloc(l)
    }
    unsafe fn dealloc(&self, p: *mut u8, l: Layout) {
        LIVE.fetch_sub(l.size() as isize, Ordering::Relaxed);
        System.dealloc(p, l)
    }
    unsafe fn realloc(&self, p: *mut u8, l: Layout, new: usize) -> *mut u8 {
        LIVE.fetch_add(new as isize - l.size() as isize, Ordering::Relaxed);
        System.realloc(p, l, new)
    }
}
#[global_allocator]
static A: Counting = Counting;

// ---------------------------------------------------------------- scalars
pub trait Scalar: Float + Debug + 'static {
    fn from_ratio(n: &BigInt, d: &BigInt) -> Self;
    /// raw f64 bit pattern (only meaningful at f64; lets -0.0 and other exact values be fed back)
    fn from_bits_token(_: u64) -> Self {
        panic!("bit patterns are f64 only")
    }
    fn show(self) -> String;
    fn good(self) -> bool;
}
impl Scalar for Ex {
    fn from_ratio(n: &BigInt, d: &BigInt) -> Ex {
        Ex::from_rat(BigRational::new(n.clone(), d.clone()))
    }
    fn show(self) -> String {
        Ex::show(self)
    }
    fn good(self) -> bool {
        self.is_finite()
    }
}
impl Scalar for f32 {
    fn from_ratio(n: &BigInt, d: &BigInt) -> f32 {
        use num::ToPrimitive;
        n.to_f32().unwrap() / d.to_f32().unwrap()
    }
    fn show(self) -> String {
        format!("x{:016x}", (self as f64).to_bits())
    }
    fn good(self) -> bool {
        self.is_finite()
    }
}
impl Scalar for f64 {
    fn from_ratio(n: &BigInt, d: &BigInt) -> f64 {
        use num::ToPrimitive;
        n.to_f64().unwrap() / d.to_f64().unwrap()
    }
    fn from_bits_token(b: u64) -> f64 {
        f64::from_bits(b)
    }
    fn show(self) -> String {
        format!("x{:016x}", self.to_bits())
    }
    fn good(self) -> bool {
        self.is_finite()
    }
}

// ---------------------------------------------------------------- dynamic views
pub trait DynView<T: Float>: View<T> {
    fn box_clone(&self) -> Option<Box<dyn DynView<T>>>;
    fn dbg(&self) -> String;
}
type B<T> = Box<dyn DynView<T>>;
impl<T: Float> View<T> for B<T> {
    fn update(&mut self, val: T) {
        (**self).update(val)
    }
    fn last(&self) -> Option<T> {
        (**self).last()
    }
}
impl<T: Float> Clone for B<T> {
    fn clone(&self) -> Self {
        self.box_clone().expect("not clonable")
    }
}
impl<T: Float> Debug for B<T> {
    fn fmt(&self, f: &mut std::fmt::Formatter<'_>) -> std::fmt::Result {
        write!(f, "{}", self.dbg())
    }
}
struct Cl<V>(V);
impl<T: Float, V: View<T> + Clone + Debug + 'static> DynView<T> for Cl<V> {
    fn box_clone(&self) -> Option<B<T>> {
        Some(Box::new(Cl(self.0.clone())))
    }
    fn dbg(&self) -> String {
        format!("{:?}", self.0)
    }
}
impl<T: Float, V: View<T>> View<T> for Cl<V> {
    fn update(&mut self, val: T) {
        self.0.update(val)
    }
    fn last(&self) -> Option<T> {
        self.0.last()
    }
}
/// `Add` does not implement `Clone`
struct NoCl<V>(V);
impl<T: Float, V: View<T> + Debug + 'static> DynView<T> for NoCl<V> {
    fn box_clone(&self) -> Option<B<T>> {
        None
    }
    fn dbg(&self) -> String {
        format!("{:?}", self.0)
    }
}
impl<T: Float, V: View<T>> View<T> for NoCl<V> {
    fn update(&mut self, val: T) {
        self.0.update(val)
    }
    fn last(&self) -> Option<T> {
        self.0.last()
    }
}
/// public getters exposed as pseudo-views
#[derive(Clone, Debug)]
struct WMean<T: Float>(WelfordOnline<T, B<T>>);
impl<T: Float> View<T> for WMean<T> {
    fn update(&mut self, val: T) {
        self.0.update(val)
    }
    fn last(&self) -> Option<T> {
        Some(self.0.mean())
    }
}
#[derive(Clone, Debug)]
struct WVar<T: Float>(WelfordOnline<T, B<T>>);
impl<T: Float> View<T> for WVar<T> {
    fn update(&mut self, val: T) {
        self.0.update(val)
    }
    fn last(&self) -> Option<T> {
        Some(self.0.variance())
    }
}
#[derive(Clone, Debug)]
struct RMean<T: Float>(WelfordRolling<T, B<T>>);
impl<T: Float> View<T> for RMean<T> {
    fn update(&mut self, val: T) {
        self.0.update(val)
    }
    fn last(&self) -> Option<T> {
        Some(self.0.mean())
    }
}
/// leaf that behaves like Echo and logs everything it receives
#[derive(Clone)]
struct Probe<T> {
    log: Rc<RefCell<Vec<T>>>,
    out: Option<T>,
}
impl<T> Debug for Probe<T> {
    fn fmt(&self, f: &mut std::fmt::Formatter<'_>) -> std::fmt::Result {
        write!(f, "Probe")
    }
}
impl<T: Float> View<T> for Probe<T> {
    fn update(&mut self, val: T) {
        self.log.borrow_mut().push(val);
        self.out = Some(val);
    }
    fn last(&self) -> Option<T> {
        self.out
    }
}

// ---------------------------------------------------------------- descriptors
#[derive(Debug, Clone)]
enum Sx {
    Atom(String),
    List(Vec<Sx>),
}
fn parse_sx(toks: &[String], pos: &mut usize) -> Sx {
    let t = &toks[*pos];
    *pos += 1;
    if t == "(" {
        let mut v = vec![];
        while toks[*pos] != ")" {
            v.push(parse_sx(toks, pos));
        }
        *pos += 1;
        Sx::List(v)
    } else {
        Sx::Atom(t.clone())
    }
}
fn tokenize(s: &str) -> Vec<String> {
    s.replace('(', " ( ").replace(')', " ) ").split_whitespace().map(|x| x.to_string()).collect()
}
fn ratio(s: &str) -> (BigInt, BigInt) {
    let (n, d) = s.split_once('/').unwrap_or((s, "1"));
    (n.parse().unwrap(), d.parse().unwrap())
}
struct Ctx<T> {
    probes: Vec<(usize, Rc<RefCell<Vec<T>>>)>,
}
fn build<T: Scalar>(sx: &Sx, cx: &mut Ctx<T>) -> B<T> {
    let (head, args): (&str, &[Sx]) = match sx {
        Sx::Atom(a) => (a.as_str(), &[]),
        Sx::List(v) => match &v[0] {
            Sx::Atom(a) => (a.as_str(), &v[1..]),
            _ => panic!("bad descriptor"),
        },
    };
    let nat = |i: usize| -> usize {
        match &args[i] {
            Sx::Atom(a) => a.parse().unwrap(),
            _ => panic!("nat expected"),
        }
    };
    let sc = |i: usize| -> T {
        match &args[i] {
            Sx::Atom(a) => {
                let (n, d) = ratio(a);
                T::from_ratio(&n, &d)
            }
            _ => panic!("scalar expected"),
        }
    };
    macro_rules! sub {
        ($i:expr) => {
            build::<T>(&args[$i], cx)
        };
    }
    macro_rules! cl {
        ($e:expr) => {
            Box::new(Cl($e)) as B<T>
        };
    }
    match head {
        "Echo" => cl!(Echo::<T>::new()),
        "Probe" => {
            let log = Rc::new(RefCell::new(vec![]));
            cx.probes.push((nat(0), log.clone()));
            cl!(Probe { log, out: None })
        }
        "Const" => cl!(Constant::new(sc(0))),
        "Add" => {
            let a = sub!(0);
            let b = sub!(1);
            Box::new(NoCl(Add::new(a, b))) as B<T>
        }
        "Sub" => {
            let a = sub!(0);
            let b = sub!(1);
            cl!(Subtract::new(a, b))
        }
        "Mul" => {
            let a = sub!(0);
            let b = sub!(1);
            cl!(Multiply::new(a, b))
        }
        "Div" => {
            let a = sub!(0);
            let b = sub!(1);
            cl!(Divide::new(a, b))
        }
        "Tanh" => cl!(Tanh::new(sub!(0))),
        "Gte" => cl!(GTE::new(sub!(1), sc(0))),
        "Lte" => cl!(LTE::new(sub!(1), sc(0))),
        "Drawdown" => cl!(Drawdown::new(sub!(0))),
        "LnReturn" => cl!(LnReturn::new(sub!(0))),
        "WRolling" => cl!(WelfordRolling::new(sub!(0))),
        "WRollingMean" => cl!(RMean(WelfordRolling::new(sub!(0)))),
        "Sma" => cl!(Sma::new(sub!(1), nat(0))),
        "Ema" => cl!(Ema::new(sub!(1), nat(0))),
        "EmaAlpha" => cl!(Ema::with_alpha(sub!(2), nat(0), sc(1))),
        "Cumulative" => cl!(Cumulative::new(sub!(1), nat(0))),
        "Min" => cl!(Min::new(sub!(1), nat(0))),
        "Max" => cl!(Max::new(sub!(1), nat(0))),
        "Roc" => cl!(Roc::new(sub!(1), nat(0))),
        "Welford" => cl!(WelfordOnline::new(sub!(1), nat(0))),
        "WelfordMean" => cl!(WMean(WelfordOnline::new(sub!(1), nat(0)))),
        "WelfordVar" => cl!(WVar(WelfordOnline::new(sub!(1), nat(0)))),
        "Vst" => cl!(Vst::new(sub!(1), nat(0))),
        "Vsct" => cl!(Vsct::new(sub!(1), nat(0))),
        "Hln" => cl!(HLNormalizer::new(sub!(1), nat(0))),
        "Entropy" => cl!(BinaryEntropy::new(sub!(1), nat(0))),
        "Cog" => cl!(CenterOfGravity::new(sub!(1), nat(0))),
        "Cti" => cl!(CorrelationTrendIndicator::new(sub!(1), nat(0))),
        "Net" => cl!(NoiseEliminationTechnology::new(sub!(1), nat(0))),
        "Rsi" => cl!(Rsi::new(sub!(1), nat(0))),
        "MyRsi" => cl!(MyRSI::new(sub!(1), nat(0))),
        "Alma" => cl!(Alma::new(sub!(1), nat(0))),
        "AlmaCustom" => cl!(Alma::new_custom(sub!(3), nat(0), sc(1), sc(2))),
        "Pfe" => {
            let v = sub!(1);
            let ma = sub!(2);
            cl!(PolarizedFractalEfficiency::new(v, ma, nat(0)))
        }
        "Cyber" => cl!(CyberCycle::new(sub!(1), nat(0))),
        "Ss" => cl!(SuperSmoother::new(sub!(1), nat(0))),
        "Roofing" => cl!(RoofingFilter::new(sub!(2), nat(0), nat(1))),
        "TrendFlex" => cl!(TrendFlex::new(sub!(1), nat(0))),
        "ReFlex" => cl!(ReFlex::new(sub!(1), nat(0))),
        "Laguerre" => cl!(LaguerreFilter::new(sub!(1), sc(0))),
        "Lrsi" => cl!(LaguerreRSI::new(sub!(1), nat(0))),
        "Eft" => {
            let v = sub!(1);
            let ma = sub!(2);
            cl!(EhlersFisherTransform::new(v, ma, nat(0)))
        }
        _ => panic!("unknown view {head}"),
    }
}

/// number of elements inside all `[...]` of a Debug dump
fn population(s: &str) -> usize {
    let mut total = 0;
    let mut stack: Vec<(usize, bool)> = vec![]; // (commas, nonempty)
    for c in s.chars() {
        match c {
            '[' => stack.push((0, false)),
            ']' => {
                if let Some((commas, nonempty)) = stack.pop() {
                    if nonempty {
                        total += commas + 1;
                    }
                }
            }
            ',' => {
                if let Some(top) = stack.last_mut() {
                    top.0 += 1;
                }
            }
            c if !c.is_whitespace() => {
                if let Some(top) = stack.last_mut() {
                    top.1 = true;
                }
            }
            _ => {}
        }
    }
    total
}

fn obs<T: Scalar>(o: Option<T>) -> String {
    match o {
        None => "N".into(),
        Some(v) if v.good() => format!("S:{}", v.show()),
        Some(_) => "E".into(),
    }
}

fn run_case<T: Scalar>(desc: &str, ops: &[&str]) -> String {
    let toks = tokenize(desc);
    let sx = parse_sx(&toks, &mut 0);
    let mut cx = Ctx { probes: vec![] };
    let mut out = String::new();
    let first = catch_unwind(AssertUnwindSafe(|| build::<T>(&sx, &mut cx)));
    let mut inst: Vec<Option<B<T>>> = vec![];
    match first {
        Ok(v) => {
            inst.push(Some(v));
            out.push_str("K");
        }
        Err(_) => {
            inst.push(None);
            out.push_str("KE");
        }
    }
    for op in ops {
        let kind = &op[0..1];
        let rest = &op[1..];
        let (idx, val) = match rest.split_once('=') {
            Some((i, v)) => (i.parse::<usize>().unwrap(), Some(v)),
            None => (rest.parse::<usize>().unwrap(), None),
        };
        out.push(' ');
        if idx >= inst.len() || inst[idx].is_none() {
            out.push('X');
            if kind == "c" {
                inst.push(None);
            }
            continue;
        }
        match kind {
            // Q<i>=<value>*<k>: k quiet updates with the same value, one '-' in the output (streams of 10^5 .. 10^6 values)
            "Q" => {
                let (tok, reps) = val.unwrap().split_once('*').unwrap();
                let reps: usize = reps.parse().unwrap();
                let (n, d) = ratio(tok);
                let x = T::from_ratio(&n, &d);
                let v = inst[idx].as_mut().unwrap();
                let r = catch_unwind(AssertUnwindSafe(|| {
                    for _ in 0..reps {
                        v.update(x);
                    }
                }));
                match r {
                    Ok(()) => out.push('-'),
                    Err(_) => {
                        out.push('E');
                        inst[idx] = None;
                    }
                }
            }
            // W<i>=<seed>*<k>: k quiet updates with the values of an integer walk in tenth units generated here (the recurrence of
            // FloatExec.walk_ops / props.lcg_walk continued from <seed>, position 2000): prefixes of millions of values, f64 only
            "W" => {
                let (tok, reps) = val.unwrap().split_once('*').unwrap();
                let reps: usize = reps.parse().unwrap();
                let mut s: u64 = tok.parse().unwrap();
                let mut c: i64 = 2000;
                let v = inst[idx].as_mut().unwrap();
                let r = catch_unwind(AssertUnwindSafe(|| {
                    for _ in 0..reps {
                        s = s.wrapping_mul(6364136223846793005).wrapping_add(1442695040888963407);
                        let st = (((s >> 33) % 397) as i64 + 1) * if (s >> 60) & 1 == 1 { 1 } else { -1 };
                        c = if 4 <= c + st && c + st <= 4000 { c + st } else { c - st };
                        v.update(<T as num::NumCast>::from((c as f64) / 10.0).unwrap());
                    }
                }));
                match r {
                    Ok(()) => out.push('-'),
                    Err(_) => {
                        out.push('E');
                        inst[idx] = None;
                    }
                }
            }
            "u" | "q" | "v" => {
                let quiet = kind == "q";
                let nopop = kind == "v";
                let tok = val.unwrap();
                let x = if let Some(h) = tok.strip_prefix('x') {
                    T::from_bits_token(u64::from_str_radix(h, 16).unwrap())
                } else {
                    let (n, d) = ratio(tok);
                    T::from_ratio(&n, &d)
                };
                let v = inst[idx].as_mut().unwrap();
                let r = catch_unwind(AssertUnwindSafe(|| {
                    v.update(x);
                    v.last()
                }));
                match r {
                    Ok(o) => {
                        let s = obs(o);
                        if s == "E" {
                            out.push('E');
                            inst[idx] = None;
                        } else if quiet {
                            out.push('-');
                        } else if nopop {
                            out.push_str(&s);
                        } else {
                            let pop = population(&v.dbg());
                            out.push_str(&format!("{s}@{pop}"));
                        }
                    }
                    Err(_) => {
                        out.push('E');
                        inst[idx] = None;
                    }
                }
            }
            "l" => {
                let v = inst[idx].as_ref().unwrap();
                match catch_unwind(AssertUnwindSafe(|| v.last())) {
                    Ok(o) => out.push_str(&obs(o)),
                    Err(_) => {
                        out.push('E');
                        inst[idx] = None;
                    }
                }
            }
            "c" => {
                let v = inst[idx].as_ref().unwrap();
                match catch_unwind(AssertUnwindSafe(|| v.box_clone())) {
                    Ok(Some(c)) => {
                        inst.push(Some(c));
                        out.push('C');
                    }
                    _ => {
                        inst.push(None);
                        out.push_str("CE");
                    }
                }
            }
            _ => panic!("bad op {op}"),
        }
    }
    cx.probes.sort_by_key(|p| p.0);
    for (k, log) in &cx.probes {
        let v: Vec<String> = log.borrow().iter().map(|x| x.show()).collect();
        out.push_str(&format!(" P{}=[{}]", k, v.join(",")));
    }
    out
}

/// `mem <desc> ; <L> [walk|const|steps]`: live heap bytes owned after L, 2L and 4L updates of a deterministic f64 stream
fn mem_case(desc: &str, l: usize, kind: &str) -> String {
    let toks = tokenize(desc);
    let sx = parse_sx(&toks, &mut 0);
    let mut cx = Ctx { probes: vec![] };
    let r = catch_unwind(AssertUnwindSafe(|| {
        let base = LIVE.load(Ordering::Relaxed);
        let mut v = build::<f64>(&sx, &mut cx);
        let mut s: u64 = 0x9E3779B97F4A7C15;
        let mut samples = vec![];
        samples.reserve(8);
        let mut x = 100.0f64;
        for i in 1..=(4 * l) {
            s ^= s << 13;
            s ^= s >> 7;
            s ^= s << 17;
            match kind {
                "const" => {}
                // long constant stretches separated by jumps
                "steps" => {
                    if i % 97 == 0 {
                        x += ((s % 9) as f64 - 4.0) * 0.25;
                    }
                }
                _ => x += ((s % 9) as f64 - 4.0) * 0.25,
            }
            if x < 1.0 {
                x = 1.0
            }
            v.update(x);
            if i == l || i == 2 * l || i == 4 * l {
                samples.push(LIVE.load(Ordering::Relaxed) - base);
            }
        }
        samples
    }));
    match r {
        Ok(s) => s.iter().map(|b| b.to_string()).collect::<Vec<_>>().join(" "),
        Err(_) => "E".into(),
    }
}

fn main() {
    std::panic::set_hook(Box::new(|_| {}));
    let args: Vec<String> = std::env::args().collect();
    if args.len() >= 2 && args[1] == "surrogate" {
        // self-test support: lines "<name> <n>/<d>" -> "<n>/<d>" or "E"
        let (f, p) = (args[2].parse().unwrap(), args[3].parse().unwrap());
        ex::set_prec(f, p);
        let stdin = std::io::stdin();
        let mut o = std::io::stdout().lock();
        for line in stdin.lock().lines() {
            let line = line.unwrap();
            let mut it = line.split_whitespace();
            let (Some(name), Some(x)) = (it.next(), it.next()) else { continue };
            let (n, d) = ratio(x);
            match ex::surrogate(name, &BigRational::new(n, d)) {
                Some(r) => writeln!(o, "{}/{}", r.numer(), r.denom()).unwrap(),
                None => writeln!(o, "E").unwrap(),
            }
        }
        return;
    }
    if args.len() >= 4 {
        ex::set_prec(args[2].parse().unwrap(), args[3].parse().unwrap());
    }
    let stdin = std::io::stdin();
    let mut o = std::io::BufWriter::new(std::io::stdout().lock());
    for line in stdin.lock().lines() {
        let line = line.unwrap();
        let line = line.trim();
        if line.is_empty() {
            continue;
        }
        let (head, ops) = line.split_once(';').unwrap_or((line, ""));
        let mut it = head.splitn(3, ' ');
        let id = it.next().unwrap();
        let mode = it.next().unwrap();
        let desc = it.next().unwrap().trim();
        let ops: Vec<&str> = ops.split_whitespace().collect();
        let res = match mode {
            "ex" => {
                ex::arena_reset();
                run_case::<Ex>(desc, &ops)
            }
            "f64" => run_case::<f64>(desc, &ops),
            "f32" => run_case::<f32>(desc, &ops),
            "mem" => mem_case(desc, ops[0].parse().unwrap(), ops.get(1).copied().unwrap_or("walk")),
            _ => panic!("bad mode"),
        };
        writeln!(o, "{id} {res}").unwrap();
    }
}
