#!/usr/bin/env python3
"""Confirm and evaluate seeded changes: /tmp/mut_out/<id>/{patch.diff,demo.rs,meta.json} -> /verif/seeded/<id>/.
For each: (1) in a scratch worktree outside /repo and /verif: the 43 tests pass with the patch, the demonstration fails
with it and passes without it; (2) apply the patch to /repo, run the named property's quick check (and optionally
others), record the VIOLATION lines, undo the patch straight afterwards."""
import os, sys, json, subprocess, shutil, re, time
SRC = os.environ.get("SEED_SRC", "/tmp/mut_out")
OUT = "/verif/seeded"
WT = "/tmp/seed_eval_wt"
WORKER = os.environ.get("SEED_WORKER", "")
if WORKER:
    WT = "/tmp/seed_eval_wt_" + WORKER

def sh(cmd, cwd=None, timeout=1800):
    r = subprocess.run(cmd, shell=True, cwd=cwd, stdout=subprocess.PIPE, stderr=subprocess.STDOUT, text=True, timeout=timeout)
    return r.returncode, r.stdout

def ensure_wt():
    if not os.path.exists(WT):
        sh("git -C /repo worktree add -q --detach %s HEAD" % WT)

def confirm(mid):
    d = os.path.join(SRC, mid)
    sh("git checkout -q -- . && git clean -fdq tests", cwd=WT)
    os.makedirs(os.path.join(WT, "tests"), exist_ok=True)
    demo = "demo_%s.rs" % mid.lower()
    shutil.copy(os.path.join(d, "demo.rs"), os.path.join(WT, "tests", demo))
    res = {}
    rc, out = sh("cargo test --offline --test %s 2>&1 | tail -15" % demo[:-3], cwd=WT)
    res["demo_passes_unpatched"] = ("test result: ok" in out)
    rc, out = sh("git apply %s" % os.path.join(d, "patch.diff"), cwd=WT)
    if rc != 0:
        res["error"] = "patch does not apply: " + out[-300:]
        return res
    rc, out = sh("cargo test --offline --lib 2>&1 | grep 'test result'", cwd=WT)
    m = re.search(r"(\d+) passed; (\d+) failed", out)
    res["suite_with_patch"] = out.strip()
    res["suite_ok_with_patch"] = bool(m and m.group(1) == "43" and m.group(2) == "0")
    rc, out = sh("cargo test --offline --test %s 2>&1 | tail -15" % demo[:-3], cwd=WT)
    res["demo_fails_patched"] = ("test result: FAILED" in out or "panicked" in out)
    sh("git checkout -q -- . && git clean -fdq tests", cwd=WT)
    return res

def detect(mid, props):
    d = os.path.join(SRC, mid)
    if WORKER:
        # parallel mode: the patched tree is this worker's scratch worktree; /repo is not touched
        sh("git checkout -q -- . && git clean -fdq tests", cwd=WT)
        rc, out = sh("git apply %s" % os.path.join(d, "patch.diff"), cwd=WT)
        env = "VERIF_REPO=%s VERIF_BUILD_TAG=_%s VERIF_SKIP_PROOFS=1 VERIF_EVIDENCE_DIR=/tmp/seed_ev_%s VERIF_REPLAY_DIR=/tmp/seed_rp_%s " % (WT, WORKER, WORKER, WORKER)
    else:
        assert sh("git -C /repo status --porcelain")[1].strip() == "", "/repo not clean"
        rc, out = sh("git -C /repo apply %s" % os.path.join(d, "patch.diff"))
        env = ""
    res = {}
    try:
        for p in props:
            t = time.time()
            rc, out = sh(env + "./check %s --tier quick" % p, cwd="/verif", timeout=2400)
            v = [l for l in out.split("\n") if l.startswith("VIOLATION")]
            detail = [l.strip() for l in out.split("\n") if l.startswith("  ")][:3]
            res[p] = {"exit": rc, "violations": v[:3], "first_messages": detail, "wall_s": round(time.time() - t)}
    finally:
        if WORKER:
            sh("git checkout -q -- .", cwd=WT)
        else:
            sh("git -C /repo checkout -- .")
    res["_mode"] = ("scratch worktree %s via VERIF_REPO (parallel evaluation; /repo untouched)" % WT) if WORKER else "git -C /repo apply; ./check; git -C /repo checkout -- ."
    return res

def main():
    ensure_wt()
    ids = sys.argv[1:] or sorted(os.listdir(SRC))
    for mid in ids:
        d = os.path.join(SRC, mid)
        o = os.path.join(OUT, mid)
        if not os.path.exists(os.path.join(d, "patch.diff")):
            continue
        if os.path.exists(os.path.join(o, "meta.json")) and "--force" not in sys.argv:
            continue
        meta = json.load(open(os.path.join(d, "meta.json")))
        prop = meta.get("property") or mid.split("_")[0]
        prop = prop if isinstance(prop, str) else mid.split("_")[0]
        prop = re.search(r"C\d\d", prop).group(0)
        conf = confirm(mid)
        ok = conf.get("demo_passes_unpatched") and conf.get("suite_ok_with_patch") and conf.get("demo_fails_patched")
        det = detect(mid, [prop]) if ok else {}
        os.makedirs(o, exist_ok=True)
        shutil.copy(os.path.join(d, "patch.diff"), o)
        shutil.copy(os.path.join(d, "demo.rs"), o)
        meta2 = {"id": mid, "breaks_property": prop, "summary": meta.get("summary"), "needs_to_manifest": meta.get("needs"),
                 "author_ran": meta.get("ran"), "confirmed_by_me": conf, "kept": bool(ok), "detection_quick": det}
        json.dump(meta2, open(os.path.join(o, "meta.json"), "w"), indent=1)
        dd = {p: v for p, v in det.items() if not p.startswith("_")}
        caught = any(v["exit"] != 0 and v["violations"] for v in dd.values())
        print(mid, "confirmed" if ok else "NOT-CONFIRMED %s" % conf, "| caught" if caught else "| MISSED", {p: (v["exit"], v["first_messages"][:1]) for p, v in dd.items()}, flush=True)
    if not WORKER:
        sh("git -C /repo checkout -- .")
        os.system("rm -rf /verif/replays/*")

if __name__ == "__main__":
    main()
