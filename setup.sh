#!/bin/sh
# Build the framework from files on disk only (offline): Coq development (full .vo build),
# the executor against /repo's tree (debug + release), primitive-agreement self-test.
set -e
cd "$(dirname "$0")"
export CARGO_NET_OFFLINE=true
mkdir -p .build evidence replays
( cd coq && coq_makefile -f _CoqProject -o Makefile >/dev/null && timeout 3000 make -j16 )
( cd harness && CARGO_TARGET_DIR=../.build/target cargo build --offline --quiet && CARGO_TARGET_DIR=../.build/target cargo build --offline --quiet --release )
./check selftest
