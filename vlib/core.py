"""Shared machinery of ./check: building, descriptors, running the implementation, running Coq."""
import os, subprocess, sys, json, time, re, random, hashlib, shutil
from fractions import Fraction
from concurrent.futures import ThreadPoolExecutor

ROOT = os.path.dirname(os.path.dirname(os.path.abspath(__file__)))
# VERIF_REPO / VERIF_BUILD_TAG are used only by seed_eval.py (to evaluate seeded changes in scratch worktrees in
# parallel); every registered check runs with the defaults, i.e. against /repo itself.
REPO = os.environ.get("VERIF_REPO", "/repo")
_TAG = os.environ.get("VERIF_BUILD_TAG", "")
BUILD = os.path.join(ROOT, ".build")
TARGET = os.path.join(BUILD, "target" + _TAG)
COQ = os.path.join(ROOT, "coq")
CASES = os.path.join(BUILD, "cases" + _TAG)
NPROC = 16
PREC = (48, 32)

def sh(cmd, **kw):
    return subprocess.run(cmd, shell=isinstance(cmd, str), stdout=subprocess.PIPE, stderr=subprocess.STDOUT, text=True, **kw)

# ------------------------------------------------------------------ build
_built = {}
def build_harness(profile="debug"):
    """(re)build the executor against /repo's current working tree"""
    if profile in _built:
        return _built[profile]
    os.makedirs(BUILD, exist_ok=True)
    env = dict(os.environ, CARGO_TARGET_DIR=TARGET, CARGO_NET_OFFLINE="true")
    cmd = ["cargo", "build", "--offline", "--quiet"] + (["--release"] if profile == "release" else [])
    target = TARGET
    if os.environ.get("VERIF_COVERAGE"):
        # source-based coverage of /repo/src under the check's cases (tools/coverage.py; not used by the registered commands)
        target = TARGET + "_cov"
        env = dict(env, CARGO_TARGET_DIR=target, RUSTFLAGS="-C instrument-coverage")
        cmd = ["cargo", "+nightly"] + cmd[1:]
        os.makedirs(os.path.join(BUILD, "cov"), exist_ok=True)
        os.environ["LLVM_PROFILE_FILE"] = os.path.join(BUILD, "cov", "%p-%m.profraw")
    hdir = os.path.join(ROOT, "harness")
    if REPO != "/repo":
        # scratch copy of the executor crate pointing at the alternative checkout
        hdir = os.path.join(BUILD, "harness" + _TAG)
        shutil.rmtree(hdir, ignore_errors=True)
        shutil.copytree(os.path.join(ROOT, "harness"), hdir, ignore=shutil.ignore_patterns("target"))
        ct = open(os.path.join(hdir, "Cargo.toml")).read().replace('path = "/repo"', 'path = "%s"' % REPO)
        open(os.path.join(hdir, "Cargo.toml"), "w").write(ct)
    r = subprocess.run(cmd, cwd=hdir, env=env, stdout=subprocess.PIPE, stderr=subprocess.STDOUT, text=True)
    if r.returncode != 0:
        raise BuildError("cargo build failed against /repo's tree:\n" + r.stdout[-4000:])
    p = os.path.join(target, profile, "verif_harness")
    _built[profile] = p
    return p

class BuildError(Exception):
    pass

def build_coq(targets=None):
    """full .vo build of the development (cached by make); returns (ok, log)"""
    if not os.path.exists(os.path.join(COQ, "Makefile")):
        r = sh("coq_makefile -f _CoqProject -o Makefile", cwd=COQ)
        if r.returncode != 0:
            return False, r.stdout
    tg = " ".join(targets) if targets else ""
    r = sh("timeout 3000 make -j%d %s" % (NPROC, tg), cwd=COQ)
    return r.returncode == 0, r.stdout

# ------------------------------------------------------------------ descriptors
# a descriptor is a nested tuple: ("Sma", 3, ("Echo",)) ; scalars are Fractions, naturals are ints
ARITY = {  # name -> list of parameter kinds; 'n' nat, 'q' scalar, 'v' sub-view
    "Echo": "", "Probe": "n", "Const": "q",
    "Add": "vv", "Sub": "vv", "Mul": "vv", "Div": "vv",
    "Tanh": "v", "Gte": "qv", "Lte": "qv",
    "Drawdown": "v", "LnReturn": "v", "WRolling": "v", "WRollingMean": "v",
    "Sma": "nv", "Ema": "nv", "EmaAlpha": "nqv", "Cumulative": "nv", "Min": "nv", "Max": "nv", "Roc": "nv",
    "Welford": "nv", "WelfordMean": "nv", "WelfordVar": "nv", "Vst": "nv", "Vsct": "nv", "Hln": "nv",
    "Entropy": "nv", "Cog": "nv", "Cti": "nv", "Net": "nv", "Rsi": "nv", "MyRsi": "nv", "Alma": "nv",
    "AlmaCustom": "nqqv", "Pfe": "nvv", "Cyber": "nv", "Ss": "nv", "Roofing": "nnv", "TrendFlex": "nv",
    "ReFlex": "nv", "Laguerre": "qv", "Lrsi": "nv", "Eft": "nvv",
}
E = ("Echo",)

def fq(x):
    if isinstance(x, str):
        return x            # raw f64 bit pattern token "x...."
    x = Fraction(x)
    return "%d/%d" % (x.numerator, x.denominator)

def d_sexpr(d):
    name = d[0]
    if not ARITY[name]:
        return name
    parts = [name]
    for kind, a in zip(ARITY[name], d[1:]):
        parts.append(str(a) if kind == "n" else fq(a) if kind == "q" else d_sexpr(a))
    return "(" + " ".join(parts) + ")"

def cq(x):
    x = Fraction(x)
    return "(q %s %d)" % (("(%d)" % x.numerator) if x.numerator < 0 else str(x.numerator), x.denominator)

def d_coq(d):
    name = d[0]
    if not ARITY[name]:
        return "D" + name
    parts = ["D" + name]
    for kind, a in zip(ARITY[name], d[1:]):
        parts.append(str(a) if kind == "n" else cq(a) if kind == "q" else d_coq(a))
    return "(" + " ".join(parts) + ")"

def d_views(d):
    """set of view names occurring in a descriptor"""
    s = {d[0]}
    for kind, a in zip(ARITY[d[0]], d[1:]):
        if kind == "v":
            s |= d_views(a)
    return s

# ------------------------------------------------------------------ running the implementation
class Obs:
    __slots__ = ("kind", "val", "pop", "raw")
    def __init__(self, tok):
        self.raw = tok
        self.pop = 0
        t = tok
        if "@" in tok:
            t, p = tok.split("@")
            self.pop = int(p)
        if t.startswith("S:"):
            self.kind = "S"
            v = t[2:]
            if v.startswith("x"):
                self.val = int(v[1:], 16)       # f64 bit pattern
            else:
                n, dd = v.split("/")
                self.val = Fraction(int(n), int(dd))
        else:
            self.kind = {"N": "N", "E": "E", "X": "X", "C": "C", "CE": "CE", "-": "-"}[t]
            self.val = None
    def coq(self):
        k = self.kind
        if k == "S":
            return "(XS %s, %d)" % (cq(self.val), self.pop)
        return "(%s, %d)" % ({"N": "XN", "E": "XE", "X": "XX", "C": "XC", "CE": "XX"}[k], self.pop)
    def js(self):
        if self.kind == "S":
            return str(self.val) if isinstance(self.val, Fraction) else "0x%016x" % self.val
        return self.kind

class Case:
    """desc + ops; ops are tuples ('u', i, Fraction) | ('l', i) | ('c', i)"""
    def __init__(self, desc, ops, meta=None):
        self.desc = desc
        self.ops = ops
        self.meta = meta or {}
        self.ctor_ok = None
        self.obs = None          # list of Obs, one per op
        self.probes = {}
    @staticmethod
    def simple(desc, xs, meta=None):
        return Case(desc, [("u", 0, x if isinstance(x, str) else Fraction(x)) for x in xs], meta)
    def inputs(self):
        return [o[2] for o in self.ops if o[0] in ("u", "v") and o[1] == 0]
    def line(self, cid, mode):
        toks = []
        for o in self.ops:
            if o[0] == "W":
                toks.append("W%d=%d*%d" % (o[1], o[2], o[3]))           # o[3] quiet updates along the walk generated inside the harness from seed o[2]
            elif o[0] == "Q":
                toks.append("Q%d=%s*%d" % (o[1], fq(o[2]), o[3]))       # o[3] quiet updates with the value o[2]
            else:
                toks.append("%s%d=%s" % (o[0], o[1], fq(o[2])) if o[0] in ("u", "q", "v") else "%s%d" % (o[0], o[1]))
        return "%s %s %s ; %s" % (cid, mode, d_sexpr(self.desc), " ".join(toks))
    def ops_coq(self):
        out = []
        for o in self.ops:
            out.append("OU %d %s" % (o[1], cq(o[2])) if o[0] == "u" else ("OL %d" % o[1] if o[0] == "l" else "OC %d" % o[1]))
        return "[" + "; ".join(out) + "]"
    def outs(self):
        """observations of the updates of instance 0, as None / Fraction / 'E'"""
        r = []
        for o, b in zip(self.ops, self.obs):
            if o[0] in ("u", "v") and o[1] == 0:
                r.append(None if b.kind == "N" else b.val if b.kind == "S" else b.kind)
        return r
    def to_json(self):
        return {"desc": d_sexpr(self.desc),
                "ops": [("W%d=%d*%d" % (o[1], o[2], o[3])) if o[0] == "W" else ("Q%d=%s*%d" % (o[1], fq(o[2]), o[3])) if o[0] == "Q" else (("%s%d=%s" % (o[0], o[1], fq(o[2]))) if o[0] in ("u", "q", "v") else "%s%d" % (o[0], o[1])) for o in self.ops][:20000],
                "impl": ([b.js() for b in self.obs] if self.obs else None), "ctor_ok": self.ctor_ok, "meta": self.meta}
    @staticmethod
    def from_json(j):
        toks = tokenize(j["desc"])
        d = parse_desc(toks)
        ops = []
        for t in j["ops"]:
            if t[0] == "W":
                i, v = t[1:].split("=")
                v, k_ = v.split("*")
                ops.append(("W", int(i), int(v), int(k_)))
            elif t[0] == "Q":
                i, v = t[1:].split("=")
                v, k_ = v.split("*")
                ops.append(("Q", int(i), Fraction(v), int(k_)))
            elif t[0] in ("u", "q", "v"):
                i, v = t[1:].split("=")
                ops.append((t[0], int(i), v if v.startswith("x") else Fraction(v)))
            else:
                ops.append((t[0], int(t[1:])))
        return Case(d, ops, j.get("meta"))

def tokenize(s):
    return s.replace("(", " ( ").replace(")", " ) ").split()

def parse_desc(toks):
    t = toks.pop(0)
    if t != "(":
        return (t,)
    name = toks.pop(0)
    args = [name]
    for kind in ARITY[name]:
        if kind == "v":
            args.append(parse_desc(toks))
        elif kind == "n":
            args.append(int(toks.pop(0)))
        else:
            args.append(Fraction(toks.pop(0)))
    assert toks.pop(0) == ")"
    return tuple(args)

def run_impl(cases, mode="ex", profile="debug", prec=PREC):
    """run the cases on the implementation (fills case.ctor_ok / case.obs / case.probes)"""
    exe = build_harness(profile)
    chunks = [cases[i::NPROC] for i in range(NPROC)]
    def work(chunk):
        if not chunk:
            return
        inp = "\n".join(c.line("c%d" % k, mode) for k, c in enumerate(chunk)) + "\n"
        r = subprocess.run([exe, "run", str(prec[0]), str(prec[1])], input=inp, stdout=subprocess.PIPE, stderr=subprocess.PIPE, text=True)
        lines = [l for l in r.stdout.split("\n") if l.strip()]
        if r.returncode != 0 or len(lines) != len(chunk):
            raise BuildError("executor failed (%d): %s" % (r.returncode, r.stderr[-2000:]))
        for c, l in zip(chunk, lines):
            toks = l.split()
            c.ctor_ok = toks[1] == "K"
            rest = toks[2:]
            c.obs = [Obs(t) for t in rest[:len(c.ops)]]
            c.probes = {}
            for t in rest[len(c.ops):]:
                k, v = t[1:].split("=")
                v = v.strip("[]")
                c.probes[int(k)] = [x for x in v.split(",") if x]
    with ThreadPoolExecutor(NPROC) as ex:
        list(ex.map(work, chunks))
    return cases

# ------------------------------------------------------------------ running Coq
def coqc(path, timeout=1500):
    r = sh("timeout %d coqc -noglob -Q %s SF %s" % (timeout, COQ, path))
    return r.returncode, r.stdout

def run_coq_shards(tag, bodies, timeout=1500):
    """bodies: list of Coq source texts; compiled in parallel; returns list of (rc, output)"""
    d = os.path.join(CASES, "%s.%d" % (tag, os.getpid()))      # per process: two checks of the same property may run at the same time
    shutil.rmtree(d, ignore_errors=True)
    os.makedirs(d, exist_ok=True)
    import atexit
    atexit.register(shutil.rmtree, d, True)
    paths = []
    for i, b in enumerate(bodies):
        p = os.path.join(d, "s%d.v" % i)
        with open(p, "w") as f:
            f.write(b)
        paths.append(p)
    with ThreadPoolExecutor(NPROC) as ex:
        return list(ex.map(lambda p: coqc(p, timeout), paths))

def parse_pairs(out, arity=2):
    """parse '= [(a, b); (c, d)] : list (Z * Z)' into [(a,b),...] (robust to %Z suffixes and line breaks)"""
    m = re.search(r"=\s*\[(.*)\]\s*:\s*list", out, re.S)
    if not m:
        return None
    nums = [int(x) for x in re.findall(r"-?\d+", re.sub(r"%[A-Za-z]+", "", m.group(1)))]
    if len(nums) % arity:
        return None
    return [tuple(nums[i:i + arity]) for i in range(0, len(nums), arity)]

def parse_zlist(out):
    m = re.search(r"=\s*\[(.*?)\]\s*:\s*list", out, re.S)
    if not m:
        return None
    return [int(x) for x in re.findall(r"-?\d+", m.group(1))]

def correspondence(tag, cases, per_shard=None):
    """model vs implementation on the given (already executed) cases.
    returns list of (first_diff_op, pop_diffs) per case, or raises on Coq failure"""
    n = len(cases)
    if n == 0:
        return []
    nsh = min(NPROC, n)
    shards = [list(range(i, n, nsh)) for i in range(nsh)]
    bodies = []
    for sh_ in shards:
        items = []
        for k in sh_:
            c = cases[k]
            items.append("mkcase %s %s %s [%s]" % (d_coq(c.desc), c.ops_coq(), "true" if c.ctor_ok else "false",
                                                    "; ".join(b.coq() for b in c.obs)))
        bodies.append("From Coq Require Import List ZArith QArith.\nFrom SF Require Import Res Scalar View Models Exec.\nImport ListNotations.\nClose Scope Q_scope. Close Scope Z_scope.\n"
                      "Definition cases : list case := [\n" + ";\n".join(items) + "\n].\nEval vm_compute in (check_cases cases).\n")
    res = run_coq_shards(tag, bodies)
    out = [None] * n
    for sh_, (rc, txt) in zip(shards, res):
        pairs = parse_pairs(txt) if rc == 0 else None
        if pairs is None or len(pairs) != len(sh_):
            raise CoqError("coqc failed on correspondence shard of %s:\n%s" % (tag, txt[-3000:]))
        for k, p in zip(sh_, pairs):
            out[k] = p
    return out

class CoqError(Exception):
    pass

def model_outputs(tag, case):
    """the model's own observations for one case (for replay files)"""
    body = ("From Coq Require Import List ZArith QArith.\nFrom SF Require Import Res Scalar View Models Exec.\nImport ListNotations.\nClose Scope Q_scope. Close Scope Z_scope.\n"
            "Eval vm_compute in (show_case (mkcase %s %s true [])).\n" % (d_coq(case.desc), case.ops_coq()))
    (rc, txt), = run_coq_shards(tag, [body])
    if rc != 0:
        return None
    if re.search(r"=\s*None", txt):
        return "constructor-error"
    res = []
    for m in re.finditer(r"\((-?\d+),\s*(-?\d+),\s*(-?\d+),\s*(-?\d+)\)", txt.replace("\n", " ")):
        k, nu, de, pop = (int(x) for x in m.groups())
        res.append({0: "N", 2: "E", 3: "X", 4: "C"}.get(k, str(Fraction(nu, de)) if k == 1 else "?"))
    return res

# ------------------------------------------------------------------ rng
class Rng:
    def __init__(self, seed):
        self.r = random.Random(seed)
    def below(self, n):
        return self.r.randrange(n)
    def choice(self, xs):
        return xs[self.r.randrange(len(xs))]
    def chance(self, p):
        return self.r.random() < p

def gen_stream(rng, length, regime=None, positive=False, grid=4):
    """a list of Fractions of the given regime; grid: denominators used"""
    regimes = ["iid", "walk", "monotone", "ties", "const_stretch", "signs", "spike", "volatile_flat", "const"]
    if positive:
        regimes = ["iid+", "walk+", "monotone+", "ties+", "const_stretch+", "spike+", "volatile_flat+", "const+"]
    reg = regime or rng.choice(regimes)
    base = reg.rstrip("+")
    if positive and base == "signs":
        base, reg = "iid", "iid+"
    g = grid
    def val(lo, hi):
        return Fraction(lo * g + rng.below((hi - lo) * g + 1), g)
    xs = []
    if base == "iid":
        xs = [val(1, 20) if positive else val(-10, 10) for _ in range(length)]
    elif base == "walk":
        c = Fraction(10)
        for _ in range(length):
            c += Fraction(rng.below(9) - 4, g)
            if positive and c < Fraction(1, 2):
                c = Fraction(1, 2)
            xs.append(c)
    elif base == "monotone":
        c = val(1, 5)
        up = rng.chance(0.5)
        for i in range(length):
            if rng.chance(0.15):
                up = not up
            step = Fraction(1 + rng.below(6), g)
            c = c + step if up else c - step
            if positive and c <= 0:
                c = Fraction(1, g)
                up = True
            xs.append(c)
    elif base == "ties":
        vals = [val(1, 6) for _ in range(3)]
        xs = [rng.choice(vals) for _ in range(length)]
    elif base == "const_stretch":
        while len(xs) < length:
            v = val(1, 9) if positive else val(-5, 5)
            xs += [v] * (1 + rng.below(6))
        xs = xs[:length]
    elif base == "signs":
        xs = [rng.choice([Fraction(0), val(1, 3), -val(1, 3), Fraction(0)]) for _ in range(length)]
    elif base == "spike":
        xs = [val(1, 4) for _ in range(length)]
        if length:
            xs[rng.below(length)] = Fraction(1000 + rng.below(1000))
    elif base == "volatile_flat":
        k = length // 2
        xs = [val(1, 50) if positive else val(-50, 50) for _ in range(k)]
        xs += [val(1, 5)] * (length - k)
    elif base == "const":
        xs = [val(1, 9) if positive else val(-5, 5)] * length
    return reg, xs

# ------------------------------------------------------------------ float (binary64) correspondence
FLOAT_OK = {"Echo", "Probe", "Const", "Add", "Sub", "Mul", "Div", "Gte", "Lte", "Drawdown", "WRolling", "WRollingMean", "Sma", "Ema", "EmaAlpha",
            "Cumulative", "Min", "Max", "Roc", "Welford", "WelfordMean", "WelfordVar", "Vst", "Vsct", "Hln", "Cog", "Cti", "Net", "Rsi", "MyRsi",
            "Pfe", "Cyber", "Laguerre", "Lrsi"}

def float_executable(d):
    """views of the model that run at Coq's primitive floats (no exp / cos / ln / log2 / tanh)"""
    return d_views(d) <= FLOAT_OK

def fq_coq(x):
    x = Fraction(x)
    return "(f_of_q (%d) %d)" % (x.numerator, x.denominator)

def d_coq_f(d):
    name = d[0]
    if not ARITY[name]:
        return "D" + name
    parts = ["D" + name]
    for kind, a in zip(ARITY[name], d[1:]):
        parts.append(str(a) if kind == "n" else fq_coq(a) if kind == "q" else d_coq_f(a))
    return "(" + " ".join(parts) + ")"

def f64_sme(bits):
    sign = bits >> 63
    e = (bits >> 52) & 0x7FF
    m = bits & ((1 << 52) - 1)
    if e == 0x7FF:
        return "fnan" if m else ("fninf" if sign else "finf")
    if e == 0:
        return "(f_of_sme %s %d (-1074))" % ("true" if sign else "false", m)
    return "(f_of_sme %s %d (%d))" % ("true" if sign else "false", m | (1 << 52), e - 1075)

def float_correspondence(tag, cases):
    """model@float (Coq primitive binary64) vs implementation@f64, bit for bit; cases must have been run with mode='f64'.
    returns list of first-differing op (0 = identical) per case"""
    n = len(cases)
    if n == 0:
        return []
    nsh = min(NPROC, n)
    shards = [list(range(i, n, nsh)) for i in range(nsh)]
    bodies = []
    for sh_ in shards:
        items = []
        for k in sh_:
            c = cases[k]
            ops = []
            for o in c.ops:
                if o[0] in ("u", "q", "v"):
                    ops.append("OU %d %s" % (o[1], f64_sme(int(o[2][1:], 16)) if isinstance(o[2], str) else fq_coq(o[2])))
                else:
                    ops.append("OL %d" % o[1] if o[0] == "l" else "OC %d" % o[1])
            exp = []
            for b in c.obs:
                exp.append({"N": "XN", "E": "XE", "X": "XX", "C": "XC", "CE": "XX"}.get(b.kind) if b.kind != "S" else "XS %s" % f64_sme(b.val))
            items.append("mkfcase %s [%s] %s [%s]" % (d_coq_f(c.desc), "; ".join(ops), "true" if c.ctor_ok else "false", "; ".join(exp)))
        bodies.append("From Coq Require Import ZArith List Floats.\nFrom SF Require Import Res Scalar View Models Exec FloatOps FloatExec.\nImport ListNotations.\nOpen Scope Z_scope.\n"
                      "Definition cases : list fcase := [\n" + ";\n".join(items) + "\n].\nEval vm_compute in (map (fun z => (z, 0)) (check_cases_fe cases)).\n")
    res = run_coq_shards(tag + "_float", bodies)
    out = [None] * n
    for sh_, (rc, txt) in zip(shards, res):
        prs = parse_pairs(txt) if rc == 0 else None
        if prs is None or len(prs) != len(sh_):
            raise CoqError("coqc failed on a float correspondence shard of %s:\n%s" % (tag, txt[-2500:]))
        for k, p_ in zip(sh_, prs):
            out[k] = p_[0]
    return out


# ------------------------------------------------------------------ catalogue coverage
RUST_NAME = {"Echo": "Echo", "Const": "Constant", "Add": "Add", "Sub": "Subtract", "Mul": "Multiply", "Div": "Divide", "Tanh": "Tanh", "Gte": "GTE", "Lte": "LTE",
             "Drawdown": "Drawdown", "LnReturn": "LnReturn", "WRolling": "WelfordRolling", "Sma": "Sma", "Ema": "Ema", "Cumulative": "Cumulative", "Min": "Min",
             "Max": "Max", "Roc": "Roc", "Welford": "WelfordOnline", "Vst": "Vst", "Vsct": "Vsct", "Hln": "HLNormalizer", "Entropy": "BinaryEntropy",
             "Cog": "CenterOfGravity", "Cti": "CorrelationTrendIndicator", "Net": "NoiseEliminationTechnology", "Rsi": "Rsi", "MyRsi": "MyRSI", "Alma": "Alma",
             "Pfe": "PolarizedFractalEfficiency", "Cyber": "CyberCycle", "Ss": "SuperSmoother", "Roofing": "RoofingFilter", "TrendFlex": "TrendFlex",
             "ReFlex": "ReFlex", "Laguerre": "LaguerreFilter", "Lrsi": "LaguerreRSI", "Eft": "EhlersFisherTransform"}

def catalogue_gaps():
    """public View implementations of /repo that the model / executor do not cover (and vice versa)"""
    exported = set()
    for m in ("pure_functions", "rolling", "sliding_windows"):
        f = os.path.join(REPO, "src", m, "mod.rs")
        if os.path.exists(f):
            exported |= set(re.findall(r"pub use [a-z_0-9]+::([A-Za-z0-9_]+);", open(f).read()))
    known = set(RUST_NAME.values())
    return sorted(exported - known), sorted(known - exported)
