"""Case generators: catalogue of views, parameters, chains."""
from fractions import Fraction as F
from .core import *

# unary wrappers with one window length: name -> minimum N the constructor accepts / that is safe
WINDOWED = {
    "Sma": 1, "Ema": 1, "Cumulative": 1, "Min": 1, "Max": 1, "Roc": 1, "Welford": 1, "Vst": 1, "Vsct": 1,
    "Hln": 1, "Entropy": 1, "Cog": 1, "Cti": 1, "Net": 1, "Rsi": 1, "MyRsi": 1, "Alma": 1, "Cyber": 3,
    "Ss": 1, "TrendFlex": 1, "ReFlex": 1, "Lrsi": 1,
}
# views whose exact-rational runs are expensive in Coq (coefficients on a 2^-32 grid): short runs only
HEAVY = {"Ss", "Roofing", "TrendFlex", "ReFlex", "Pfe"}
POSITIVE_ONLY = {"Drawdown", "LnReturn"}
MAS = [("Ema", 3, E), ("Sma", 2, E), E, ("Ema", 1, E), ("Ss", 3, E)]

def pick_n(rng, lo, hi=12):
    r = rng.below(10)
    if r < 3:
        return lo
    if r < 5:
        return lo + 1
    return lo + rng.below(max(1, hi - lo + 1))

def mk_view(rng, name, inner=E, n=None):
    """a descriptor of view `name` over `inner` with generated parameters"""
    if name in WINDOWED:
        return (name, n if n is not None else pick_n(rng, WINDOWED[name]), inner)
    if name in ("WelfordMean", "WelfordVar"):
        return (name, n if n is not None else pick_n(rng, 1), inner)
    if name == "Roofing":
        return (name, n if n is not None else pick_n(rng, 2, 8), 1 + rng.below(4), inner)
    if name == "Laguerre":
        return (name, rng.choice([F(0), F(1, 2), F(4, 5), F(1, 5), F(9, 10)]), inner)
    if name == "Pfe":
        return (name, n if n is not None else pick_n(rng, 3, 9), inner, rng.choice(MAS))
    if name == "Eft":
        return (name, n if n is not None else pick_n(rng, 2, 9), inner, rng.choice(MAS))
    if name in ("Gte", "Lte"):
        return (name, rng.choice([F(1, 2), F(0), F(-1), F(3)]), inner)
    if name == "EmaAlpha":
        return (name, n if n is not None else pick_n(rng, 1), rng.choice([F(1), F(2), F(1, 2)]), inner)
    if name == "AlmaCustom":
        return (name, n if n is not None else pick_n(rng, 1), rng.choice([F(6), F(4), F(2)]), rng.choice([F(85, 100), F(1, 2), F(0)]), inner)
    if name in ("Tanh", "Drawdown", "LnReturn", "WRolling", "WRollingMean"):
        return (name, inner)
    raise KeyError(name)

ALL_UNARY = list(WINDOWED) + ["WelfordMean", "WelfordVar", "Roofing", "Laguerre", "Pfe", "Eft", "Gte", "Lte", "EmaAlpha",
                              "AlmaCustom", "Tanh", "Drawdown", "LnReturn", "WRolling", "WRollingMean"]
# inner views for chains: have a warm-up and/or an output that differs from the input
INNERS = [("Sma", 2, E), ("Cumulative", 3, E), ("Roc", 2, E), ("Ema", 3, E), ("LnReturn", E), ("Min", 2, E)]
INNERS_POS = [("Sma", 2, E), ("Cumulative", 3, E), ("Ema", 3, E), ("Max", 2, E)]   # positive outputs on positive inputs

def is_heavy(d):
    return bool(d_views(d) & HEAVY)

def needs_positive(d):
    return bool(d_views(d) & POSITIVE_ONLY) or "Div" in d_views(d)

def stream_for(rng, d, length=None, regime=None):
    heavy = is_heavy(d)
    L = length or (12 if heavy else 20 + rng.below(21))
    if heavy:
        L = min(L, 14)
    reg, xs = gen_stream(rng, L, regime, positive=needs_positive(d), grid=(1 if heavy else rng.choice([4, 4, 10, 2])))
    if not heavy and regime is None and rng.chance(0.12):
        # unusual magnitudes: large units, and integers beyond the exact range of f32 / i32 (conversions through a narrower type)
        kind = rng.choice(["x1e6", "x1e12", "+2^24", "+2^31"])
        if kind.startswith("x"):
            m = F(10) ** int(kind[3:])
            xs = [x * m for x in xs]
        else:
            off = F(2) ** int(kind[3:]) + 1
            xs = [x + off for x in xs]
        reg = reg + "/" + kind
    return reg, xs

# views whose exact runs stay cheap for long streams and large windows (no coefficient growth)
LARGE_OK = {"Sma", "Cumulative", "Min", "Max", "Roc", "Welford", "WelfordMean", "WelfordVar", "Vst", "Vsct", "Hln", "Entropy", "Cog", "Cti", "Net",
            "Rsi", "MyRsi", "Alma", "Ema", "WRolling", "WRollingMean", "Drawdown", "LnReturn", "Gte", "Lte"}

def standalone_cases(rng, names, count, length=None, nmax=12):
    cases = []
    for i in range(count):
        name = names[i % len(names)]
        if name in LARGE_OK and length is None and (i // len(names)) % 6 == 5:
            # every sixth pass: a large window and a stream long enough to wrap it several times
            n = 20 + rng.below(21)
            if name not in ("Net", "Cti", "Alma", "Cog", "Ema") and rng.chance(0.35):
                n = rng.choice([64, 97, 101, 128])          # powers of two, primes, > 100
            d = mk_view(rng, name, n=n)
            L = (90 + rng.below(70)) if name not in ("Net", "Cti", "Alma") else 70
            if n > 60:
                L = 2 * n + 20 + rng.below(30)
            reg, xs = gen_stream(rng, L, positive=needs_positive(d), grid=rng.choice([4, 2, 10]))
            cases.append(Case.simple(d, xs, {"regime": reg + "/large-window", "view": name}))
            continue
        d = mk_view(rng, name)
        reg, xs = stream_for(rng, d, length)
        cases.append(Case.simple(d, xs, {"regime": reg, "view": name}))
    return cases

def nontrivial(case):
    """a case counts as non-trivial when the view produced at least two different values"""
    vals = {b.raw.split("@")[0] for b in case.obs} if case.obs else set()
    return len(vals) >= 3
