"""Batch specifications (the property texts as functions of the whole history), evaluated with exact
rationals and the surrogate transcendentals.  spec(desc_params..., xs) -> list of outputs (None | Fraction),
one per step.  Written from properties.jsonl, not from the Rust code."""
from fractions import Fraction as F
from . import surrogate as S

def window(xs, t, n):
    return xs[max(0, t + 1 - n): t + 1]

def per_step(f):
    def g(n, xs):
        return [f(n, xs[:t + 1]) for t in range(len(xs))]
    return g

# ---------------------------------------------------------------- C02
@per_step
def sma(n, h):
    return None if len(h) < n else sum(h[-n:]) / n
@per_step
def cumulative(n, h):
    return sum(h[-n:])
@per_step
def vmin(n, h):
    return min(h[-n:])
@per_step
def vmax(n, h):
    return max(h[-n:])
def _mean(w):
    return sum(w) / len(w)
def _svar(w):
    if len(w) <= 1:
        return F(0)
    m = _mean(w)
    return sum((x - m) ** 2 for x in w) / (len(w) - 1)
@per_step
def welford_mean(n, h):
    return _mean(h[-n:])
@per_step
def welford_var(n, h):
    return _svar(h[-n:])
def _wlast(n, h):
    w = h[-n:]
    if len(w) < n - 1:
        return None
    v = _svar(w)
    return F(0) if v <= 0 else S.ssqrt(v)
welford = per_step(_wlast)
@per_step
def vst(n, h):
    sd = _wlast(n, h)
    if sd is None:
        return None
    return h[-1] if sd == 0 else h[-1] / sd
@per_step
def vsct(n, h):
    sd = _wlast(n, h)
    if sd is None:
        return None
    return F(0) if sd == 0 else (h[-1] - _mean(h[-n:])) / sd
@per_step
def hln(n, h):
    w = h[-n:]
    lo, hi = min(w), max(w)
    return F(0) if lo == hi else 2 * (h[-1] - lo) / (hi - lo) - 1
def roc(n, xs):
    out, prev = [], None
    for t, x in enumerate(xs):
        base = xs[t - n] if t >= n else xs[0]
        if base != 0:
            prev = (x - base) / base * 100
        out.append(prev)
    return out
@per_step
def entropy(n, h):
    w = h[-n:]
    p = F(sum(1 for x in w if x >= 0), len(w))
    if p == 0 or p == 1:
        return F(0)
    return -(p * S.slog2(p) + (1 - p) * S.slog2(1 - p))

# ---------------------------------------------------------------- C04
def ema(n, xs, alpha=F(2)):
    w = alpha / (n + 1)
    out, e = [], None
    for t, x in enumerate(xs):
        e = x if t == 0 else x * w + e * (1 - w)
        out.append(e if t + 1 >= n else None)
    return out
def alma_weights(n, sigma=F(6), offset=F(85, 100)):
    m = offset * (n + 1)
    s = F(n) / sigma
    return [S.sexp(-((F(k) - m) ** 2) / (2 * s * s)) for k in range(n)]
def alma(n, xs, sigma=F(6), offset=F(85, 100)):
    g = alma_weights(n, sigma, offset)
    out = []
    for t in range(len(xs)):
        lo = max(0, t + 1 - n)
        ws = [g[min(j, n - 1)] for j in range(lo, t + 1)]
        out.append(sum(w * x for w, x in zip(ws, xs[lo:t + 1])) / sum(ws))
    return out

# ---------------------------------------------------------------- C05
def _gl(n, h):
    # the N most recent changes (the first value of a stream counts as a change of 0)
    if len(h) > n:
        w = h[-(n + 1):]
        d = [w[i] - w[i - 1] for i in range(1, len(w))]
    else:
        d = ([F(0)] + [h[i] - h[i - 1] for i in range(1, len(h))])[-n:]
    return sum(x for x in d if x > 0), sum(-x for x in d if x <= 0)
@per_step
def rsi(n, h):
    if len(h) < n:
        return None
    g, l = _gl(n, h)
    return F(100) if l == 0 else 100 * g / (g + l)
def myrsi(n, xs):
    out, prev = [], F(0)
    for t in range(len(xs)):
        g, l = _gl(n, xs[:t + 1])
        if g + l != 0:
            prev = (g - l) / (g + l)
        out.append(prev if t + 1 >= n else None)
    return out

# ---------------------------------------------------------------- C06
@per_step
def cti(n, h):
    """Pearson correlation of the values present in the window with their index"""
    w = h[-n:]
    k = len(w)
    sx, sy = sum(w), sum(range(k))
    sxx, syy = sum(x * x for x in w), sum(i * i for i in range(k))
    sxy = sum(x * i for i, x in enumerate(w))
    vx, vy = k * sxx - sx * sx, k * syy - sy * sy
    if vx > 0 and vy > 0:
        return max(F(-1), min(F(1), (k * sxy - sx * sy) / S.ssqrt(vx * vy)))
    return F(0)
cti_full = cti
def net(n, xs):
    out, prev = [], None
    for t in range(len(xs)):
        w = window(xs, t, n)
        k = len(w)
        if k >= 2:
            num = sum((1 if w[j] > w[i] else -1 if w[j] < w[i] else 0) for j in range(k) for i in range(j))
            prev = F(num) / (F(k * (k - 1), 2))
        out.append(prev)
    return out
@per_step
def cog(n, h):
    w = h[-n:]
    k = len(w)
    den = sum(w)
    if den == 0:
        return F(0)
    num = sum((j + 1) * w[k - 1 - j] for j in range(k))   # k=1 newest
    return F(k + 1, 2) - num / den

# ---------------------------------------------------------------- C13
@per_step
def wrolling_mean(_, h):
    return _mean(h)
@per_step
def wrolling(_, h):
    m = _mean(h)
    v = sum((x - m) ** 2 for x in h) / len(h) if len(h) > 1 else F(0)
    return S.ssqrt(v)
def drawdown(_, xs):
    out, peak, dd = [], None, F(0)
    for x in xs:
        peak = x if peak is None or x > peak else peak
        dd = max(dd, (peak - x) / peak)
        out.append(dd)
    return out
def lnreturn(_, xs):
    return [None if t == 0 else S.sln(xs[t] / xs[t - 1]) for t in range(len(xs))]

# ---------------------------------------------------------------- C11
PI = F(3141592653589793, 10 ** 15)
def ss_coefs(n):
    a1 = S.sexp(-F(1414, 1000) * PI / n)
    b1 = 2 * a1 * S.scos(F(44422, 10000) / n)
    c3 = -a1 * a1
    return 1 - b1 - c3, b1, c3
def ss_filter(n, xs):
    c1, b1, c3 = ss_coefs(n)
    f = []
    for t, x in enumerate(xs):
        xp = xs[t - 1] if t >= 1 else F(0)
        f1 = f[t - 1] if t >= 1 else F(0)
        f2 = f[t - 2] if t >= 2 else F(0)
        f.append(c1 * (x + xp) / 2 + b1 * f1 + c3 * f2)
    return f
def ss(n, xs):
    f = ss_filter(n, xs)
    return [f[t] if t + 1 >= n else None for t in range(len(xs))]
def roofing(n, m, xs):
    th = F(44422, 10000) / n
    al = (S.scos(th) + S.ssin(th) - 1) / S.scos(th)
    hp = []
    for t, x in enumerate(xs):
        x1 = xs[t - 1] if t >= 1 else F(0)
        x2 = xs[t - 2] if t >= 2 else F(0)
        h1 = hp[t - 1] if t >= 1 else F(0)
        h2 = hp[t - 2] if t >= 2 else F(0)
        hp.append((1 - al / 2) ** 2 * (x - 2 * x1 + x2) + 2 * (1 - al) * h1 - (1 - al) ** 2 * h2)
    fed = [hp[t] for t in range(len(xs)) if t > n]
    f = ss_filter(m, fed)
    out = []
    for t in range(len(xs)):
        k = max(0, t - n)          # number of values the smoother has received
        out.append(f[k - 1] if k >= m and k >= 1 else None)
    return out
def laguerre(g, xs):
    out, p = [], None
    for x in xs:
        if p is None:
            l = [x, x, x, x]
        else:
            l0 = (1 - g) * x + g * p[0]
            l1 = -g * l0 + p[0] + g * p[1]
            l2 = -g * l1 + p[1] + g * p[2]
            l3 = -g * l2 + p[2] + g * p[3]
            l = [l0, l1, l2, l3]
        p = l
        out.append((l[0] + 2 * l[1] + 2 * l[2] + l[3]) / 6)
    return out
def lrsi(n, xs):
    g = F(2, n + 1)
    out, p, prev = [], [F(0)] * 4, None
    for t, x in enumerate(xs):
        if t < 2:
            out.append(prev)
            continue
        l0 = (1 - g) * x + g * p[0]
        l1 = -g * l0 + p[0] + g * p[1]
        l2 = -g * l1 + p[1] + g * p[2]
        l3 = -g * l2 + p[2] + g * p[3]
        p = [l0, l1, l2, l3]
        cu = cd = F(0)
        for a, b in ((l0, l1), (l1, l2), (l2, l3)):
            if a >= b:
                cu += a - b
            else:
                cd += b - a
        if cu + cd != 0:
            prev = cu / (cu + cd)
        out.append(prev)
    return out
def cyber(n, xs):
    """valid for n >= 6"""
    al = F(2, n + 1)
    def smooth(t):
        # inside the window of the last n values; positions before the window start do not exist
        return (xs[t] + 2 * xs[t - 1] + 2 * xs[t - 2] + xs[t - 3]) / 6
    out = []
    for t in range(len(xs)):
        if t + 1 < n:
            out.append(F(0))
            continue
        c1 = out[t - 1]
        c2 = out[t - 2]
        out.append((1 - al / 2) ** 2 * (smooth(t) - 2 * smooth(t - 1) + smooth(t - 2)) + 2 * (1 - al) * c1 - (1 - al) ** 2 * c2)
    return out
def flex_coefs(n):
    a1 = S.sexp(F(-888442402435, 10 ** 11) / n)
    b1 = 2 * a1 * S.scos(F(444221201218, 10 ** 11) / n)
    c3 = -a1 * a1
    return 1 - b1 - c3, b1, c3
def _flex(n, xs, reflex):
    c1, b1, c3 = flex_coefs(n)
    filt, out, ms, prev = [], [], F(0), None
    for t, x in enumerate(xs):
        xp = xs[t - 1] if t >= 1 else x
        # window of the last n filter values including the current one: earlier terms only if still inside it
        inside = min(t, n - 1)
        f = c1 * (x + xp) / 2
        if inside >= 1:
            f += b1 * filt[t - 1]
        if inside >= 2:
            f += c3 * filt[t - 2]
        filt.append(f)
        w = filt[max(0, t + 1 - n): t + 1]
        if reflex:
            slope = (w[0] - f) / n
            d = sum((f + i * slope) - w[len(w) - 1 - i] for i in range(len(w))) / n
        else:
            d = sum(f - y for y in w) / n
        ms = F(4, 100) * d * d + F(96, 100) * ms
        if ms > 0:
            prev = d / S.ssqrt(ms)
        elif not reflex:
            prev = F(0)
        out.append(prev)
    return out
def trendflex(n, xs):
    return _flex(n, xs, False)
def reflex(n, xs):
    return _flex(n, xs, True)

def ma_eval(ma, vals):
    """outputs of a moving-average descriptor (over Echo) on a list of values"""
    if ma[0] == "Echo":
        return list(vals)
    if ma[0] == "Ema":
        return ema(ma[1], vals)
    if ma[0] == "Sma":
        return sma(ma[1], vals)
    if ma[0] == "Ss":
        return ss(ma[1], vals)
    raise KeyError(ma)
def eft(n, ma, xs):
    out, fed, fish, q = [], [], [], None
    for t, x in enumerate(xs):
        w = window(xs, t, n)
        hi, lo = max(w), min(w)
        if hi == lo:
            fish.append(F(0))
            out.append(fish[-1])
            continue
        fed.append(2 * ((x - lo) / (hi - lo) - F(1, 2)))
        sm = ma_eval(ma, fed)[-1]
        if sm is None:
            out.append(fish[-1] if fish else None)
            continue
        sm = max(F(-99, 100), min(F(99, 100), sm))
        if not fish:
            fish.append(F(0))
        else:
            fish.append(F(1, 2) * S.sln((1 + sm) / (1 - sm)) + F(1, 2) * fish[-1])
        out.append(fish[-1])
    return out
def pfe(n, ma, xs):
    out, fed, prev = [], [], None
    for t, x in enumerate(xs):
        if t + 1 < n:
            out.append(None)
            continue
        w = xs[t + 1 - n: t + 1]
        s = sum(S.ssqrt((w[n - 1 - i] - w[n - 2 - i]) ** 2 + 1) for i in range(n - 2))
        p = S.ssqrt((x - w[0]) ** 2 + F(n) ** 2) / s
        if x < w[n - 2]:
            p = -p
        fed.append(p)
        prev = ma_eval(ma, fed)[-1]
        out.append(prev)
    return out


# ---------------------------------------------------------------- evaluation at binary64 (long streams)
class _FloatS:
    """libm in place of the surrogates"""
    import math as _m
    sexp = staticmethod(_m.exp); scos = staticmethod(_m.cos); ssin = staticmethod(_m.sin); sln = staticmethod(_m.log)
    slog2 = staticmethod(_m.log2); ssqrt = staticmethod(_m.sqrt); stanh = staticmethod(_m.tanh)

def at_float(f, *args):
    """evaluate a specification of this module with python floats (IEEE binary64, libm) instead of exact rationals and surrogates:
    the same formulas, used against f64 runs of thousands of steps where exact evaluation is out of reach.  Not exact: compare with a tolerance."""
    g = globals()
    oldF, oldS = g["F"], g["S"]
    g["F"] = lambda a, b=1: float(a) / float(b)
    g["S"] = _FloatS
    try:
        return f(*args)
    finally:
        g["F"], g["S"] = oldF, oldS
