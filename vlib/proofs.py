"""Step 1 of every check: the proof obligations of one property."""
import os, re, glob
from .core import *

ALLOWED_AXIOMS = {
    "ClassicalDedekindReals.sig_forall_dec": "standard library real numbers",
    "ClassicalDedekindReals.sig_not_dec": "standard library real numbers",
    "FunctionalExtensionality.functional_extensionality_dep": "standard library real numbers (Reals)",
    "Classical_Prop.classic": "standard library classical logic (via Reals / Coquelicot / Interval)",
}
PRIMITIVE_PREFIXES = ("PrimFloat.", "PrimInt63.", "Uint63.", "Sint63.", "FloatAxioms.", "Floats.")
FORBIDDEN = re.compile(r"\b(Admitted|admit|Axiom|Axioms|Parameter|Parameters|Conjecture|Conjectures|Admit Obligations|bypass_check|Unset Guard Checking|Unset Positivity Checking|Unset Universe Checking|type-in-type|impredicative-set)\b")

def strip_comments(s):
    out, depth, i = [], 0, 0
    while i < len(s):
        if s.startswith("(*", i):
            depth += 1
            i += 2
        elif s.startswith("*)", i) and depth > 0:
            depth -= 1
            i += 2
        else:
            if depth == 0:
                out.append(s[i])
            i += 1
    return "".join(out)

def scan_forbidden():
    bad = []
    files = glob.glob(os.path.join(COQ, "*.v")) + glob.glob(os.path.join(COQ, "*", "*.v")) + [os.path.join(COQ, "_CoqProject")]
    for f in files:
        src = strip_comments(open(f).read())
        for m in FORBIDDEN.finditer(src):
            bad.append("%s: %s" % (os.path.relpath(f, COQ), m.group(0)))
        # Variable / Hypothesis outside a section declare axioms
        depth = 0
        for line in src.split("\n"):
            t = line.strip()
            if re.match(r"Section\s", t):
                depth += 1
            elif re.match(r"End\s", t) and depth > 0:
                depth -= 1
            elif depth == 0 and re.match(r"(Variable|Variables|Hypothesis|Hypotheses|Context)\b", t):
                bad.append("%s: %s outside a section" % (os.path.relpath(f, COQ), t.split()[0]))
    return bad

def theorems_of(pid):
    p = os.path.join(COQ, "Properties", pid + ".v")
    if not os.path.exists(p):
        return []
    src = strip_comments(open(p).read())
    return re.findall(r"^\s*(?:Theorem|Lemma|Corollary)\s+([A-Za-z0-9_']+)", src, re.M)

def coqchk_axioms(pid):
    """independent re-check of the compiled property file and everything it depends on (thorough tier)"""
    r = sh("timeout 900 coqchk -silent -o -Q . SF SF.Properties.%s" % pid, cwd=COQ)
    if r.returncode == 124:
        # coqchk re-reduces every vm_compute proof with its own machine; on the float-level developments that can exceed any reasonable budget.
        # A timeout is not a rejection: it is recorded in the evidence and the kernel's own check (the .vo build) stands.
        return 124, [], [], "timed out after 900 s"
    m = re.search(r"\* Axioms:(.*?)\n\s*\n", r.stdout, re.S)
    axs = [a.strip() for a in (m.group(1).split("\n") if m else []) if a.strip() and a.strip() != "<none>"]
    unsafe = []
    for what in ("type-in-type", "unsafe (co)fixpoints", "positivity is assumed"):
        mm = re.search(re.escape(what) + r":\s*(.*?)\n", r.stdout)
        if mm and mm.group(1).strip() != "<none>":
            unsafe.append(what + ": " + mm.group(1).strip())
    return r.returncode, axs, unsafe, r.stdout[-800:]

PINNED = os.path.join(COQ, "Properties", "PINNED.json")
def printed_statements(pid, thms):
    """the statement of every property theorem as Coq prints it (`Check @name` at unlimited width), normalised and hashed"""
    import hashlib
    body = ("From SF.Properties Require Import %s.\nSet Printing Width 1000000.\nSet Printing Depth 1000000.\n" % pid) + "".join("Check @%s.\n" % t for t in thms)
    (rc, txt), = run_coq_shards("statements_" + pid, [body])
    out = {}
    if rc != 0:
        return None, txt[-600:]
    names = "|".join(re.escape(t) for t in thms)
    for m in re.finditer(r"^@?(%s)\s*\n?\s+: (.*?)(?=^@?(?:%s)\s*\n?\s+: |\Z)" % (names, names), txt, re.S | re.M):
        norm = " ".join(m.group(2).split())
        out[m.group(1)] = {"sha256": hashlib.sha256(norm.encode()).hexdigest(), "chars": len(norm), "head": norm[:160]}
    return out, ""

def check_pinned(pid, thms):
    """every theorem's printed statement must be the committed one (coq/Properties/PINNED.json, written by `python3 -m vlib.proofs --pin`):
    about 100 generated theorems are stated as `ltac:(type of lemma)` because their printed statement does not re-parse, so nothing in the
    .v file itself would notice a weakened lemma; this does."""
    import json as _json
    if not os.path.exists(PINNED):
        return [("pinned-statements", "coq/Properties/PINNED.json is missing")], 0
    pinned = _json.load(open(PINNED)).get(pid, {})
    now, err = printed_statements(pid, thms)
    if now is None:
        return [("pinned-statements", "Check failed: " + err)], 0
    broken = []
    for t in thms:
        if t not in pinned:
            broken.append((t, "theorem %s has no pinned statement (re-pin after reviewing it: python3 -m vlib.proofs --pin)" % t))
        elif t not in now:
            broken.append((t, "statement of %s could not be printed" % t))
        elif now[t]["sha256"] != pinned[t]["sha256"]:
            broken.append((t, "the statement of %s is no longer the pinned one (now: %s...)" % (t, now[t]["head"])))
    for t in pinned:
        if t not in thms:
            broken.append((t, "pinned theorem %s has disappeared from Properties/%s.v" % (t, pid)))
    return broken, len(now)

def check_proofs(pid, tier="quick"):
    res = {"coverage": {}, "assumptions": [], "broken": []}
    thms = theorems_of(pid)
    target = "Properties/%s.vo" % pid
    ok, log = build_coq([target])
    bad = scan_forbidden()
    for b in bad:
        res["broken"].append(("forbidden-vernacular", b))
    axioms = {}
    if not ok:
        m = re.search(r'File "([^"]+)", line (\d+).*?\n(Error:.*?)(?:\n\n|\Z)', log, re.S)
        where = ("%s line %s: %s" % (m.group(1), m.group(2), " ".join(m.group(3).split())[:400])) if m else log[-600:]
        res["broken"].append((target, where))
        discharged = 0
    else:
        # axioms each property theorem depends on, re-printed on every run
        body = "From SF.Properties Require Import %s.\n" % pid + "".join('Print Assumptions %s.\n' % t for t in thms)
        (rc, txt), = run_coq_shards("assumptions_" + pid, [body])
        if rc != 0:
            res["broken"].append(("Print Assumptions", txt[-600:]))
        chunks = re.split(r"(?=Closed under the global context|Axioms:)", txt)
        for ch in chunks:
            for m in re.finditer(r"^([A-Za-z_][A-Za-z0-9_.']*)\s*:", ch, re.M):
                if m.group(1) not in ("Axioms", "Closed"):
                    axioms[m.group(1)] = True
        for ax in axioms:
            if ax.startswith(PRIMITIVE_PREFIXES):
                continue       # kernel primitives (binary64 floats, 63-bit integers) are listed by Print Assumptions; they are not axioms of ours
            if not any(ax.endswith(k) or k.endswith(ax) for k in ALLOWED_AXIOMS):
                res["broken"].append(("axiom", "theorem of %s depends on non-allowlisted axiom %s" % (pid, ax)))
        discharged = len(thms)
        pb, npinned = check_pinned(pid, thms)
        res["broken"] += pb
        res["coverage_pinned"] = npinned
    res["coverage"] = {
        "obligations": len(thms), "discharged": discharged,
        "theorems": thms,
        "checker_cmd": "make -C coq Properties/%s.vo (coqc 8.16.1, full .vo build) ; coqc Print Assumptions for each theorem" % pid,
        "trusted_base": ["Coq 8.16.1 kernel incl. vm_compute", "hand-written model coq/Models.v (validated by the correspondence check, not verified)",
                         "harness/src/ex.rs exact scalar and surrogates", "rustc/cargo"] + ["axiom " + a for a in sorted(axioms)],
        "axioms_reported": sorted(axioms),
        "statements_compared_with_pinned": res.pop("coverage_pinned", 0),
    }
    res["assumptions"] = ["theorems are about the hand-written model; the tie to /repo is the correspondence on this run's cases"]
    if tier == "thorough" and ok:
        rc, axs, unsafe, tail = coqchk_axioms(pid)
        res["coverage"]["coqchk"] = {"exit": rc, "axioms": axs, "unsafe": unsafe}
        if rc == 124:
            res["coverage"]["coqchk"]["note"] = "timed out (not a rejection); the property file was checked by coqc only in this run"
        elif rc != 0:
            res["broken"].append(("coqchk", "coqchk rejected Properties/%s.vo or a dependency: %s" % (pid, tail[-300:])))
        for a in axs:
            if not a.startswith("Coq."):
                res["broken"].append(("axiom", "coqchk reports an axiom declared outside the standard library: " + a))
        for u in unsafe:
            res["broken"].append(("unsafe", "coqchk: " + u))
    return res


if __name__ == "__main__":
    import sys, json
    if "--pin" in sys.argv:
        allp = {}
        for f in sorted(glob.glob(os.path.join(COQ, "Properties", "C*.v"))):
            pid = os.path.basename(f)[:-2]
            thms = theorems_of(pid)
            now, err = printed_statements(pid, thms)
            assert now is not None and len(now) == len(thms), (pid, err, len(now or {}), len(thms))
            allp[pid] = now
            print(pid, len(now), "statements pinned")
        json.dump(allp, open(PINNED, "w"), indent=0, sort_keys=True)
