"""Python port of the surrogate transcendentals (harness/src/ex.rs, coq/Surrogate.v): used by the oracles to
evaluate specifications at the exact scalar.  ./check selftest compares all three implementations."""
from fractions import Fraction as F
from math import isqrt

E_DEC = 271828182845904523536028747135266249775724709369995
EINV_DEC = 36787944117144232159552377016146086744581113103176
LN2_DEC = 69314718055994530941723212145817656807550013436025
TERMS = 40
PF, PP = 48, 32

def const_fix(c, f):
    return (c << f) // 10 ** 50
def tofix(x, f):
    return (x.numerator << f) // x.denominator
def mulfix(a, b, f):
    return (a * b) >> f
def outgrid(v, f, p):
    return F(v >> (f - p), 1 << p)

def exp_fix(x, f):
    n = x.numerator // x.denominator
    fr = x - n
    xf = tofix(fr, f)
    term = 1 << f
    s = 1 << f
    for i in range(1, TERMS + 1):
        term = mulfix(term, xf, f) // i
        s += term
    base = const_fix(EINV_DEC, f) if n < 0 else const_fix(E_DEC, f)
    pw = 1 << f
    for _ in range(abs(n)):
        pw = mulfix(pw, base, f)
    return mulfix(pw, s, f)

def sexp(x, f=PF, p=PP):
    v = exp_fix(F(x), f) >> (f - p)
    return F(max(v, 1), 1 << p)

def cossin_fix(x, f):
    xf = tofix(abs(x), f)
    c = 1 << f
    s = xf
    tc = 1 << f
    ts = xf
    for k in range(TERMS):
        tc = mulfix(mulfix(tc, xf, f), xf, f) // ((2 * k + 1) * (2 * k + 2))
        ts = mulfix(mulfix(ts, xf, f), xf, f) // ((2 * k + 2) * (2 * k + 3))
        if k % 2 == 0:
            c -= tc
            s -= ts
        else:
            c += tc
            s += ts
    return c, s

def scos(x, f=PF, p=PP):
    return outgrid(cossin_fix(F(x), f)[0], f, p)
def ssin(x, f=PF, p=PP):
    x = F(x)
    s = cossin_fix(x, f)[1]
    return outgrid(-s if x < 0 else s, f, p)

def ln_fix(x, f):
    x = F(x)
    k0 = (x.numerator.bit_length() - 1) - (x.denominator.bit_length() - 1)
    m = x / (F(2) ** k0)
    k = k0
    if m < 1:
        m *= 2
        k -= 1
    z = (m - 1) / (m + 1)
    zf = tofix(z, f)
    u = zf
    s = zf
    for i in range(1, TERMS + 1):
        u = mulfix(mulfix(u, zf, f), zf, f)
        s += u // (2 * i + 1)
    return k * const_fix(LN2_DEC, f) + 2 * s

def sln(x, f=PF, p=PP):
    return outgrid(ln_fix(x, f), f, p)
def slog2(x, f=PF, p=PP):
    return outgrid((ln_fix(x, f) << f) // const_fix(LN2_DEC, f), f, p)
def ssqrt(x, f=PF, p=PP):
    return F(isqrt(tofix(F(x), 2 * p)), 1 << p)
def stanh(x, f=PF, p=PP):
    x = max(F(-20), min(F(20), F(x)))
    e2 = exp_fix(F(x) * 2, f)
    return outgrid(((e2 - (1 << f)) << f) // (e2 + (1 << f)), f, p)
