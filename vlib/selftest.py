"""Primitive agreement: every surrogate of the exact scalar (harness/src/ex.rs) against coq/Surrogate.v
on seeded random arguments."""
import subprocess, re
from fractions import Fraction as F
from .core import *

def main(n=160, seed=7):
    exe = build_harness("debug")
    ok, log = build_coq(["Exec.vo"])
    if not ok:
        print("selftest: coq build failed\n" + log[-2000:])
        return 1
    rng = Rng(seed)
    names = ["exp", "cos", "sin", "ln", "log2", "sqrt", "tanh"]
    args = []
    for i in range(n):
        nm = names[i % len(names)]
        num = rng.below(20000) + 1
        den = rng.below(3000) + 1
        x = F(num, den)
        if nm in ("exp", "tanh", "sin", "cos") and rng.chance(0.5):
            x = -x
        if nm in ("exp",):
            x = x % 60 if x > 0 else -((-x) % 60)
        if nm in ("tanh",):
            x = x % 30 if x > 0 else -((-x) % 30)
        if nm in ("cos", "sin"):
            x = x % 7 if x > 0 else -((-x) % 7)
        args.append((nm, x))
    inp = "".join("%s %d/%d\n" % (nm, x.numerator, x.denominator) for nm, x in args)
    r = subprocess.run([exe, "surrogate", str(PREC[0]), str(PREC[1])], input=inp, stdout=subprocess.PIPE, text=True)
    rust = [F(l) for l in r.stdout.split()]
    body = ("From Coq Require Import List ZArith QArith.\nFrom SF Require Import Surrogate Exec.\nImport ListNotations.\nClose Scope Q_scope. Close Scope Z_scope.\n"
            "Definition show (x : Q) := let x := Qred x in (Qnum x, Zpos (Qden x)).\nEval vm_compute in [\n" +
            ";\n".join("show (%s_s prec_default %s)" % (nm, cq(x)) for nm, x in args) + "\n].\n")
    (rc, txt), = run_coq_shards("selftest", [body])
    pairs = parse_pairs(txt) if rc == 0 else None
    if pairs is None or len(pairs) != len(args) or len(rust) != len(args):
        print("selftest: could not evaluate (%s)" % txt[-800:])
        return 1
    from . import surrogate as SG
    py = [getattr(SG, "s" + nm)(x) for nm, x in args]
    bad = [(a, F(p[0], p[1]), q, y) for a, p, q, y in zip(args, pairs, rust, py) if F(p[0], p[1]) != q or q != y]
    if bad:
        print("selftest: surrogate disagreement (arg, Coq, Rust, Python):", bad[:3])
        return 1
    print("selftest: %d surrogate evaluations agree (Rust BigInt vs Coq Z vs Python oracle port)" % len(args))
    return 0
