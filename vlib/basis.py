"""Source basis: which files of /repo/src differ (after removing comments, blank space and the #[cfg(test)] module) from the
tree the hand-written model was last validated against (model_basis.json, committed; re-recorded after every fix: commit).
A difference is NOT an alarm: the model is tied to the code by the correspondence on every run.  It only directs effort:
a property whose anchored files changed gets the failing-input search with further seeds even when the first pass is clean.
usage: python3 -m vlib.basis --record"""
import os, re, sys, json, glob, hashlib, fnmatch
from .core import ROOT, REPO

BASIS = os.path.join(ROOT, "model_basis.json")

def normalise(src):
    i = src.find("#[cfg(test)]")
    if i >= 0:
        src = src[:i]
    src = re.sub(r"/\*.*?\*/", " ", src, flags=re.S)
    src = re.sub(r"//[^\n]*", " ", src)
    return re.sub(r"\s+", " ", src).strip()

def tree(repo=None):
    repo = repo or REPO
    out = {}
    for p in sorted(glob.glob(os.path.join(repo, "src", "**", "*.rs"), recursive=True)):
        rel = os.path.relpath(p, repo)
        out[rel] = hashlib.sha256(normalise(open(p, errors="replace").read()).encode()).hexdigest()
    return out

def changed():
    """files of /repo/src whose normalised text differs from the recorded basis (added and removed files included)"""
    if not os.path.exists(BASIS):
        return None
    b = json.load(open(BASIS))["files"]
    t = tree()
    return sorted(f for f in set(b) | set(t) if b.get(f) != t.get(f))

def relevant(pid, files):
    """the changed files a property is anchored in (properties.jsonl anchors.files globs)"""
    pats = []
    for l in open(os.path.join(ROOT, "properties.jsonl")):
        d = json.loads(l)
        if d["id"] == pid:
            pats = d["anchors"]["files"]
    return [f for f in files if any(fnmatch.fnmatch(f, p) for p in pats)]

if __name__ == "__main__":
    if "--record" in sys.argv:
        import subprocess
        head = subprocess.run("git -C %s rev-parse --short HEAD" % REPO, shell=True, capture_output=True, text=True).stdout.strip()
        json.dump({"repo_commit": head, "files": tree()}, open(BASIS, "w"), indent=1)
        print("recorded", len(tree()), "files at", head)
    else:
        print(changed())
