"""Property oracles evaluated on the implementation's own outputs (exact rationals / f64 bit patterns).
An oracle rejection is a concrete input on which the code does what the property forbids; it does not
involve the model."""
import math, struct
from fractions import Fraction as F
from .core import *

def f64_of_bits(b):
    return struct.unpack("<d", struct.pack("<Q", b))[0]
def bits_of_f64(x):
    return struct.unpack("<Q", struct.pack("<d", x))[0]

def viol(key, msg, cases, **kw):
    d = {"kind": "oracle", "cases": [c.to_json() for c in cases]}
    d.update(kw)
    return (key, msg, d)

def oracle_for(pid, cases):
    return []

# ---------------------------------------------------------------------------------- C14
def c14(groups, f64=False):
    out = []
    for g in groups:
        p = g[0]
        name = p.desc[0]
        po = p.outs()
        if any(x in ("E", "X") for x in po):
            out.append(viol("c14-error", "combinator %s failed on in-domain input" % d_sexpr(p.desc), g))
            continue
        kids = [c.outs() for c in g[1:]]
        for t in range(len(po)):
            exp = "skip"
            if name in ("Add", "Sub", "Mul", "Div"):
                a, b = kids[0][t], kids[1][t]
                if a is None or b is None:
                    exp = None
                elif a in ("E", "X") or b in ("E", "X"):
                    exp = "skip"
                elif f64:
                    x, y = f64_of_bits(a), f64_of_bits(b)
                    try:
                        exp = bits_of_f64({"Add": x + y, "Sub": x - y, "Mul": x * y}[name] if name != "Div" else x / y)
                    except (ZeroDivisionError, OverflowError):
                        exp = "skip"
                else:
                    if name == "Div" and b == 0:
                        exp = "skip"
                    else:
                        exp = {"Add": lambda: a + b, "Sub": lambda: a - b, "Mul": lambda: a * b, "Div": lambda: a / b}[name]()
            elif name in ("Gte", "Lte"):
                a = kids[0][t]
                clip = p.desc[1]
                if a is None:
                    # value held only while the child is silent: previous output (None at the start)
                    exp = po[t - 1] if t > 0 else None
                elif f64:
                    x = f64_of_bits(a)
                    c = float(clip.numerator) / float(clip.denominator)
                    exp = bits_of_f64(max(x, c) if name == "Gte" else min(x, c))
                else:
                    exp = max(a, clip) if name == "Gte" else min(a, clip)
            elif name == "Tanh":
                a = kids[0][t]
                if a is None:
                    exp = None
                elif f64:
                    exp = bits_of_f64(math.tanh(f64_of_bits(a)))
                else:
                    exp = "some"
            elif name == "Echo":
                x = p.inputs()[t]
                exp = bits_of_f64(float(x.numerator) / float(x.denominator)) if f64 else x
            elif name == "Const":
                c = p.desc[1]
                exp = bits_of_f64(float(c.numerator) / float(c.denominator)) if f64 else c
            if exp == "skip":
                continue
            got = po[t]
            ok = (got is not None) if exp == "some" else (got == exp)
            if not ok:
                out.append(viol("c14-pointwise", "%s at step %d reports %s but its children's current outputs give %s%s"
                                % (d_sexpr(p.desc), t + 1, got, exp, " (f64 bits)" if f64 else ""), g, step=t + 1))
                break
    return out
