"""Property oracles evaluated on the implementation's own outputs (exact rationals / f64 bit patterns).
An oracle rejection is a concrete input on which the code does what the property forbids; it does not
involve the model."""
import math, struct
from fractions import Fraction as F
from .core import *

def f64_of_bits(b):
    return struct.unpack("<d", struct.pack("<Q", b))[0]
def bits_of_f64(x):
    return struct.unpack("<Q", struct.pack("<d", x))[0]

def viol(key, msg, cases, **kw):
    d = {"kind": "oracle", "cases": [c.to_json() for c in cases]}
    d.update(kw)
    return (key, msg, d)

def oracle_for(pid, cases):
    return []

# ---------------------------------------------------------------------------------- C14
def c14(groups, f64=False):
    out = []
    for g in groups:
        p = g[0]
        name = p.desc[0]
        po = p.outs()
        if any(x in ("E", "X") for x in po):
            out.append(viol("c14-error", "combinator %s failed on in-domain input" % d_sexpr(p.desc), g))
            continue
        kids = [c.outs() for c in g[1:]]
        for t in range(len(po)):
            exp = "skip"
            if name in ("Add", "Sub", "Mul", "Div"):
                a, b = kids[0][t], kids[1][t]
                if a is None or b is None:
                    exp = None
                elif a in ("E", "X") or b in ("E", "X"):
                    exp = "skip"
                elif f64:
                    x, y = f64_of_bits(a), f64_of_bits(b)
                    try:
                        exp = bits_of_f64({"Add": x + y, "Sub": x - y, "Mul": x * y}[name] if name != "Div" else x / y)
                    except (ZeroDivisionError, OverflowError):
                        exp = "skip"
                else:
                    if name == "Div" and b == 0:
                        exp = "skip"
                    else:
                        exp = {"Add": lambda: a + b, "Sub": lambda: a - b, "Mul": lambda: a * b, "Div": lambda: a / b}[name]()
            elif name in ("Gte", "Lte"):
                a = kids[0][t]
                clip = p.desc[1]
                if a is None:
                    # value held only while the child is silent: previous output (None at the start)
                    exp = po[t - 1] if t > 0 else None
                elif f64:
                    x = f64_of_bits(a)
                    c = float(clip.numerator) / float(clip.denominator)
                    exp = bits_of_f64(max(x, c) if name == "Gte" else min(x, c))
                    if x == c:
                        exp = "skip" if po[t] in (bits_of_f64(x), bits_of_f64(c)) else bits_of_f64(c)     # +-0 against a zero clip: either zero is max / min
                else:
                    exp = max(a, clip) if name == "Gte" else min(a, clip)
            elif name == "Tanh":
                a = kids[0][t]
                if a is None:
                    exp = None
                elif f64:
                    exp = bits_of_f64(math.tanh(f64_of_bits(a)))
                else:
                    exp = "some"
            elif name == "Echo":
                x = p.inputs()[t]
                if isinstance(x, str):
                    exp = int(x[1:], 16)        # raw f64 bit pattern
                else:
                    exp = bits_of_f64(float(x.numerator) / float(x.denominator)) if f64 else x
            elif name == "Const":
                c = p.desc[1]
                exp = bits_of_f64(float(c.numerator) / float(c.denominator)) if f64 else c
            if exp == "skip":
                continue
            got = po[t]
            ok = (got is not None) if exp == "some" else (got == exp)
            if not ok:
                out.append(viol("c14-pointwise", "%s at step %d reports %s but its children's current outputs give %s%s"
                                % (d_sexpr(p.desc), t + 1, got, exp, " (f64 bits)" if f64 else ""), g, step=t + 1))
                break
    return out

# ---------------------------------------------------------------------------------- generic helpers
from . import specs as SP
from . import surrogate as SG

def spec_for(d):
    """batch specification of a stand-alone descriptor over Echo: function xs -> expected outputs, or None"""
    name = d[0]
    n = d[1] if len(d) > 1 and isinstance(d[1], int) else None
    tbl = {"Sma": SP.sma, "Cumulative": SP.cumulative, "Min": SP.vmin, "Max": SP.vmax, "WelfordMean": SP.welford_mean,
           "WelfordVar": SP.welford_var, "Welford": SP.welford, "Vst": SP.vst, "Vsct": SP.vsct, "Hln": SP.hln, "Roc": SP.roc,
           "Entropy": SP.entropy, "Ema": SP.ema, "Alma": SP.alma, "Rsi": SP.rsi, "MyRsi": SP.myrsi, "Cti": SP.cti_full, "Net": SP.net,
           "Cog": SP.cog, "Ss": SP.ss, "Lrsi": SP.lrsi, "TrendFlex": SP.trendflex, "ReFlex": SP.reflex}
    if name in tbl and d[-1] == E:
        return lambda xs: tbl[name](n, xs)
    if name == "Cyber" and d[-1] == E and n >= 6:
        return lambda xs: SP.cyber(n, xs)
    if name == "Roofing" and d[-1] == E:
        return lambda xs: SP.roofing(d[1], d[2], xs)
    if name == "Laguerre" and d[-1] == E:
        return lambda xs: SP.laguerre(d[1], xs)
    if name == "EmaAlpha" and d[-1] == E:
        return lambda xs: SP.ema(d[1], xs, d[2])
    if name == "AlmaCustom" and d[-1] == E:
        return lambda xs: SP.alma(d[1], xs, d[2], d[3])
    if name == "Eft" and d[2] == E and d[3][0] in ("Echo", "Ema", "Sma", "Ss") and d[3][-1] == E:
        return lambda xs: SP.eft(d[1], d[3], xs)
    if name == "Pfe" and d[2] == E and d[3][0] in ("Echo", "Ema", "Sma", "Ss") and d[3][-1] == E:
        return lambda xs: SP.pfe(d[1], d[3], xs)
    if name in ("WRolling", "WRollingMean", "Drawdown", "LnReturn") and d[-1] == E:
        f = {"WRolling": SP.wrolling, "WRollingMean": SP.wrolling_mean, "Drawdown": SP.drawdown, "LnReturn": SP.lnreturn}[name]
        return lambda xs: f(0, xs)
    return None

def spec_check(pid, cases, what):
    """implementation's outputs against the batch specification, exactly"""
    out = []
    for c in cases:
        f = spec_for(c.desc)
        if f is None:
            continue
        got = c.outs()
        if "E" in got or "X" in got or c.ctor_ok is False:
            out.append(viol(pid.lower() + "-error", "%s failed (panic / non-finite) on in-domain input" % d_sexpr(c.desc), [c]))
            continue
        exp = f(c.inputs())
        for t, (e, g) in enumerate(zip(exp, got)):
            if e == "skip":
                continue
            if g is None and c.desc[0] in ("Welford", "Vst", "Vsct") and t + 1 == c.desc[1] - 1:
                continue      # C08 allows these three to become ready at N-1 or at N values
            if e != g:
                small = shrink_spec(c, f, t)
                out.append(viol("%s-spec-%s" % (pid.lower(), c.desc[0].lower()),
                                "%s at step %d reports %s, %s gives %s" % (d_sexpr(c.desc), t + 1, g, what, e), [small, c] if small is not c else [c],
                                step=t + 1, expected=str(e), minimised_inputs=[str(x) for x in small.inputs()]))
                break
    return out

def shrink_spec(c, f, t, budget=60):
    """minimise a single-run counterexample: cut after the failing step, then drop inputs from the front and replace
    values by small integers while implementation and specification still disagree somewhere"""
    xs = c.inputs()[:t + 1]
    def fails(ys):
        if not ys:
            return False
        k = Case.simple(c.desc, ys, dict(c.meta, role="shrunk"))
        try:
            run_impl([k], mode=c.meta.get("mode", "ex"))
        except Exception:
            return False
        got = k.outs()
        if any(isinstance(g, str) for g in got):
            return False
        try:
            exp = f(ys)
        except (ZeroDivisionError, ValueError, ArithmeticError):
            return False          # the candidate left the specification's domain (e.g. a zero for Drawdown / LnReturn)
        return any(e != "skip" and e != g for e, g in zip(exp, got)), k
    positive = c.desc[0] in ("Drawdown", "LnReturn") or "Drawdown" in d_sexpr(c.desc) or "LnReturn" in d_sexpr(c.desc)
    best = None
    r = fails(xs)
    if not r or not r[0]:
        return c
    best = r[1]
    n = 0
    while len(xs) > 1 and n < budget:
        n += 1
        r = fails(xs[1:])
        if r and r[0]:
            xs = xs[1:]
            best = r[1]
        else:
            break
    for i in range(len(xs)):
        if n >= budget:
            break
        for v in (F(0), F(1), F(round(xs[i]))):
            if v == xs[i] or (positive and v <= 0):
                continue
            n += 1
            ys = xs[:i] + [v] + xs[i + 1:]
            r = fails(ys)
            if r and r[0]:
                xs = ys
                best = r[1]
                break
    return best

def no_error(pid, cases):
    out = []
    for c in cases:
        if c.ctor_ok is False or any(b.kind in ("E",) for b in c.obs):
            out.append(viol(pid.lower() + "-error", "%s failed (panic / non-finite) on in-domain input" % d_sexpr(c.desc), [c]))
    return out

def approx(x):
    return float(x) if x is not None and not isinstance(x, str) else x

# ---------------------------------------------------------------------------------- C01
def c01_chain(groups, f64=False):
    """group = (chain case, inner case, replay case): chain output == replay of W(Echo) on the inner outputs"""
    out = []
    for (chain, inner, rep) in groups:
        a = chain.outs()
        b = [None if o.kind == "N" else o.val if o.kind == "S" else o.kind for o in rep.obs]
        if a != b:
            t = next(i for i in range(min(len(a), len(b))) if a[i] != b[i]) if len(a) == len(b) else 0
            out.append(viol("c01-chain", "chain %s differs at step %d from feeding its stand-alone inner view's outputs into %s (%s vs %s)%s"
                            % (d_sexpr(chain.desc), t + 1, d_sexpr(rep.desc), a[t], b[t], " [f64 bits]" if f64 else ""), [chain, inner, rep], step=t + 1))
    return out

def c01_binary(groups):
    out = []
    for (p, a, b) in groups:
        po, ao, bo = p.outs(), a.outs(), b.outs()
        for t in range(len(po)):
            both = ao[t] is not None and bo[t] is not None
            if (po[t] is not None) != both:
                out.append(viol("c01-binary", "%s at step %d reports %s while children report %s / %s" % (d_sexpr(p.desc), t + 1, po[t], ao[t], bo[t]), [p, a, b], step=t + 1))
                break
    return out

def c01_probes(cases):
    out = []
    for c in cases:
        xs = c.inputs()
        shown = [fq(x) if not c.meta.get("mode") == "f64" else None for x in xs]
        for k, log in c.probes.items():
            got = [F(v) for v in log] if c.meta.get("mode") != "f64" else log
            exp = xs if c.meta.get("mode") != "f64" else None
            if exp is not None and got != exp:
                out.append(viol("c01-leaves", "leaf %d of %s received %s instead of the raw inputs %s" % (k, d_sexpr(c.desc), [str(g) for g in got][:8], [str(x) for x in xs][:8]), [c]))
                break
        if not c.probes:
            out.append(viol("c01-leaves", "no probe reported for %s" % d_sexpr(c.desc), [c]))
    return out

# ---------------------------------------------------------------------------------- C03
def c03(pairs):
    """pairs of (case1, case2, K, suffix_len, view): outputs on the common suffix from position K on must agree"""
    out = []
    for (c1, c2, K, sl, exc) in pairs:
        o1, o2 = c1.outs(), c2.outs()
        x1 = c1.inputs()
        for i in range(K - 1, sl):
            a, b = o1[len(o1) - sl + i], o2[len(o2) - sl + i]
            if a == b:
                continue
            s = x1[len(x1) - sl:]
            name = c1.desc[0]
            n = c1.desc[1]
            if name == "MyRsi" and len(set(s[max(0, i - n): i + 1])) == 1:
                continue        # explicitly holding: flat window
            if name == "Roc" and i - n >= 0 and s[i - n] == 0:
                continue        # explicitly holding: zero base
            out.append(viol("c03-memory-" + name.lower(), "%s: two histories sharing their last %d values give %s and %s (position %d of the common suffix, K=%d)"
                            % (d_sexpr(c1.desc), sl, a, b, i + 1, K), [c1, c2], suffix_len=sl, K=K))
            break
    return out

# ---------------------------------------------------------------------------------- C04 / C07 hull-type checks
def c04_single(cases):
    out = []
    for c in cases:
        name, n = c.desc[0], c.desc[1]
        xs, got = c.inputs(), c.outs()
        for t, g in enumerate(got):
            if g is None or isinstance(g, str):
                continue
            w = xs[:t + 1] if name == "Ema" else xs[max(0, t + 1 - n): t + 1]
            if not (min(w) <= g <= max(w)):
                out.append(viol("c04-hull-" + name.lower(), "%s at step %d reports %s outside the hull [%s, %s] of the values it averages" % (d_sexpr(c.desc), t + 1, g, min(w), max(w)), [c], step=t + 1))
                break
            if len(set(xs[:t + 1])) == 1 and g != xs[0]:
                out.append(viol("c04-constant-" + name.lower(), "%s does not reproduce the constant input %s: %s" % (d_sexpr(c.desc), xs[0], g), [c], step=t + 1))
                break
    return out

def pointwise_rel(key, msg, pairs, rel):
    """pairs: (base case, transformed case, params); rel(base_out, transformed_out, params, t, base_case) -> bool"""
    out = []
    for (c1, c2, prm) in pairs:
        o1, o2 = c1.outs(), c2.outs()
        for t, (a, b) in enumerate(zip(o1, o2)):
            if isinstance(a, str) or isinstance(b, str):
                out.append(viol(key + "-error", "error during %s" % d_sexpr(c1.desc), [c1, c2]))
                break
            if (a is None) != (b is None):
                out.append(viol(key, "%s: readiness differs at step %d (%s vs %s) %s" % (d_sexpr(c1.desc), t + 1, a, b, msg), [c1, c2], step=t + 1, params=str(prm)))
                break
            if a is None:
                continue
            r = rel(a, b, prm, t, c1)
            if r is False:
                out.append(viol(key, "%s at step %d: %s -> %s %s (%s)" % (d_sexpr(c1.desc), t + 1, a, b, msg, prm), [c1, c2], step=t + 1, params=str(prm)))
                break
    return out

# ---------------------------------------------------------------------------------- C07
def ulps_tol(bound, f64):
    if not f64:
        return F(0)
    b = abs(float(bound)) if bound is not None else 1.0
    return F(max(b, 1e-300)) * F(4, 2 ** 52)

def c07(cases, f64=False):
    from .props import range_of
    out = []
    for c in cases:
        name = c.desc[0]
        n = c.desc[1] if len(c.desc) > 1 and isinstance(c.desc[1], int) else None
        xs = [F(f64_of_bits(int(x[1:], 16))) if isinstance(x, str) else x for x in c.inputs()]      # raw bit patterns -> their exact values
        got = c.outs()
        if f64:
            got = [None if g is None else g if isinstance(g, str) else F(f64_of_bits(g)) if math.isfinite(f64_of_bits(g)) else "E" for g in got]
        def bad(msg, t, key=None):
            k = key or ("c07-range-" + name.lower() + ("-f64" if f64 else ""))
            out.append(viol(k, "%s at step %d: %s%s" % (d_sexpr(c.desc), t + 1, msg, " [f64]" if f64 else ""), [c], step=t + 1))
        prev = None
        for t, g in enumerate(got):
            if g is None:
                continue
            if isinstance(g, str):
                bad("error / non-finite value", t, "c07-error-" + name.lower() + ("-f64" if f64 else ""))
                break
            r = range_of(c.desc)
            if r is not None:
                lo, hi = r
                # at the exact scalar sqrt / ln / log2 are surrogates floored to a 2^-32 grid: allow 1e-6 there
                sur = F(1, 10 ** 6) if (not f64 and name in ("Cti", "Entropy", "Eft", "Welford", "WRolling", "Pfe")) else F(0)
                if (lo is not None and g < lo - ulps_tol(lo, f64) - sur) or (hi is not None and g > hi + ulps_tol(hi, f64) + sur):
                    bad("value %s (~%.12g) outside [%s, %s]" % (g if not f64 else float(g), float(g), lo, hi), t)
                    break
            if name == "Drawdown":
                # in f64 a decline by a factor of more than 2^53 rounds (peak - x)/peak to exactly 1: within the "few ulps of the bound" the property allows
                if (g >= 1 if not f64 else g > 1 + ulps_tol(F(1), True)) or (prev is not None and g < prev):
                    bad("drawdown %s not in [0,1) / decreasing" % g, t)
                    break
                prev = g
            if name == "Vsct" and not f64:
                # |Vsct| <= (N-1)/sqrt(N): compare squares; the surrogate sqrt floors, allow 1e-6
                if g * g * n > F(n - 1) ** 2 * (1 + F(1, 10 ** 6)):
                    bad("|Vsct| = %.9g exceeds (N-1)/sqrt(N)" % abs(float(g)), t)
                    break
            if name == "Vsct" and f64 and abs(float(g)) > (n - 1) / math.sqrt(n) * (1 + 1e-15 * 8):
                small = abs(float(g)) <= (n - 1) / math.sqrt(n) * (1 + 1e-6)
                key_ = "c07-vsct-residue-f64" if small else None
                if not small:
                    # the known finding c07-range-vsct-f64 is the WelfordOnline residue on a (nearly) flat window after larger values: attribute the
                    # excursion to it only when the window at this step is nearly flat relative to the largest magnitude seen; otherwise it is new
                    vals = [x for x in xs[:t + 1] if not isinstance(x, str)]
                    w = vals[-n:]
                    if len(w) >= 2:
                        M = max(abs(v) for v in vals)
                        if any(o[0] == "W" for o in c.ops):
                            M = max(M, F(400))          # the generated prefix walks inside [0.4, 400]
                        mean_ = sum(w) / len(w)
                        m2_ = sum((v - mean_) ** 2 for v in w)
                        if not (m2_ <= F(1, 10 ** 9) * M * M * len(w)):
                            key_ = "c07-range-vsct-f64-not-residue"
                bad("|Vsct| = %.17g exceeds (N-1)/sqrt(N) = %.17g" % (abs(float(g)), (n - 1) / math.sqrt(n)), t, key_)
                break
            if name == "Cog":
                k = min(n, t + 1)
                if abs(g) > F(n - 1, 2) + ulps_tol(F(n - 1, 2), f64):
                    bad("|CoG| = %s exceeds (N-1)/2" % g, t)
                    break
            if name in ("Min", "Max", "Sma", "Alma") and c.desc[-1] == E:
                xx = [F(x) for x in xs] if not f64 else [F(float(x.numerator) / float(x.denominator)) for x in xs]
                w = xx[max(0, t + 1 - n): t + 1]
                tol = ulps_tol(max(abs(x) for x in w), f64) * (n if name in ("Sma", "Alma") else 0)
                if not (min(w) - tol <= g <= max(w) + tol):
                    exc = max(min(w) - g, g - max(w))
                    seen = max(abs(x) for x in xx[:t + 1])
                    resid = f64 and name in ("Sma", "Alma") and exc <= seen * F(1, 10 ** 12)
                    bad("%s (~%.6g) outside [min, max] = [%s, %s] of its window" % (g, float(g), min(w), max(w)), t,
                        ("c07-hull-residue-%s-f64" % name.lower()) if resid else None)
                    break
                if name == "Min" and g != min(w) or name == "Max" and g != max(w):
                    bad("%s is not the extremum of the window" % g, t)
                    break
            if name in ("Gte", "Lte"):
                clip = c.desc[1]
                cl = clip if not f64 else F(float(clip.numerator) / float(clip.denominator))
                if (name == "Gte" and g < cl) or (name == "Lte" and g > cl):
                    bad("%s violates the clip %s" % (g, clip), t)
                    break
    return out

# ---------------------------------------------------------------------------------- C08
def c08(cases, warm, f64=False):
    out = []
    for c in cases:
        name = c.desc[0]
        obs = [(None if b.kind == "N" else "v" if b.kind == "S" else b.kind) for b in c.obs]
        if c.ctor_ok is False or "E" in obs:
            out.append(viol("c08-error-" + name.lower() + ("-f64" if f64 else ""), "%s: panic or non-finite value on in-domain input%s" % (d_sexpr(c.desc), " [f64]" if f64 else ""), [c] if len(c.ops) < 200 else [], desc=d_sexpr(c.desc)))
            continue
        if c.meta.get("regime") == "starved":
            if len(set(b.raw.split("@")[0] for b in c.obs)) != 1:
                out.append(viol("c08-starved", "%s changed its answer although its inner view never delivered" % d_sexpr(c.desc), [c]))
            continue
        # nothing can be reported before anything was delivered: reads before the first update, and a wrapper whose inner
        # Sma(3) has not delivered yet (the first two updates)
        early = 2 if c.meta.get("regime") == "read-before-first-update" else (3 if (c.ops and c.ops[0][0] == "l" and c.desc[-1] == ("Sma", 3, E) and name not in ("Pfe", "Eft")) else 0)
        # only for the views whose warm-up C08 documents (a first value at the k-th delivered value, k >= 1); Welford/Vst/Vsct with N = 1 may
        # report at N-1 = 0 values, and C08 is silent on the others (HLNormalizer(1) does answer 0 before any value: allowed)
        n_ = c.desc[1] if len(c.desc) > 1 and isinstance(c.desc[1], int) else None
        documented = name in ("Sma", "Ema", "Ss", "Rsi", "MyRsi", "Roofing", "LnReturn", "Min", "Max", "Cumulative", "Alma", "AlmaCustom", "EmaAlpha", "Cog", "Entropy",
                              "Gte", "Lte", "Tanh", "Laguerre") or (name in ("Welford", "Vst", "Vsct") and n_ is not None and n_ >= 2)
        if documented and any(o is not None for o in obs[:early]):
            t = next(i for i, o in enumerate(obs[:early]) if o is not None)
            out.append(viol("c08-early-" + name.lower(), "%s reports a value at operation %d (%s) although nothing has been delivered to it yet" % (d_sexpr(c.desc), t + 1, c.obs[t].raw), [c]))
            continue
        seen = False
        for t, o in enumerate(obs):
            if o == "v":
                seen = True
            elif seen and o is None:
                out.append(viol("c08-relapse-" + name.lower(), "%s: readiness reverted to None at step %d" % (d_sexpr(c.desc), t + 1), [c] if len(c.ops) < 200 else [], step=t + 1))
                break
        if f64 or c.meta.get("chain") or c.desc[-1] != E:
            continue
        n = c.desc[1] if len(c.desc) > 1 and isinstance(c.desc[1], int) else None
        uobs = [o for o, op in zip(obs, c.ops) if op[0] in ("u", "v")]
        first = next((t + 1 for t, o in enumerate(uobs) if o == "v"), None)
        L = len(uobs)
        exp = None
        if name in warm:
            exp = warm[name](n)
        elif name in ("Gte", "Lte", "Tanh", "Laguerre", "Echo"):
            exp = 1
        elif name == "LnReturn":
            exp = 2
        elif name == "Roofing":
            exp = c.desc[1] + c.desc[2] + 1
        if exp is not None and exp <= L and first != exp:
            out.append(viol("c08-warmup-" + name.lower(), "%s first reports at value %s, documented: %d" % (d_sexpr(c.desc), first, exp), [c]))
        if name in ("Welford", "Vst", "Vsct") and L >= n and (first is None or not (max(1, n - 1) <= first <= max(1, n))):
            out.append(viol("c08-warmup-" + name.lower(), "%s first reports at value %s, documented: between N-1 and N" % (d_sexpr(c.desc), first), [c]))
    return out

# ---------------------------------------------------------------------------------- C10
def c10(triples, consts):
    out = []
    for (cx, cy, cz, (a, b)) in triples:
        ox, oy, oz = cx.outs(), cy.outs(), cz.outs()
        for t in range(len(oz)):
            if any(isinstance(o[t], str) for o in (ox, oy, oz)):
                out.append(viol("c10-error", "error in %s" % d_sexpr(cx.desc), [cx, cy, cz]))
                break
            nn = [o[t] is None for o in (ox, oy, oz)]
            if len(set(nn)) != 1:
                out.append(viol("c10-superposition-" + cx.desc[0].lower(), "%s: readiness pattern depends on the data at step %d" % (d_sexpr(cx.desc), t + 1), [cx, cy, cz], step=t + 1))
                break
            if nn[0]:
                continue
            if oz[t] != a * ox[t] + b * oy[t]:
                out.append(viol("c10-superposition-" + cx.desc[0].lower(), "%s at step %d: view(%s*x+%s*y) = %s but %s*view(x)+%s*view(y) = %s"
                                % (d_sexpr(cx.desc), t + 1, a, b, oz[t], a, b, a * ox[t] + b * oy[t]), [cx, cy, cz], step=t + 1, a=str(a), b=str(b)))
                break
    for c in consts:
        name, n = c.desc[0], c.desc[1]
        v = c.inputs()[0]
        for t, g in enumerate(c.outs()):
            if g is None:
                continue
            want = F(0) if name == "Cyber" else v
            if g != want:
                key = "D11-cyber-small-n-dc" if (name == "Cyber" and isinstance(n, int) and n in (4, 5)) else "c10-dc-" + name.lower()
                out.append(viol(key, "%s on the constant stream %s reports %s at step %d (expected %s)" % (d_sexpr(c.desc), v, g, t + 1, want), [c], step=t + 1))
                break
    return out

def c10_dc(fcases):
    out = []
    for c in fcases:
        name = c.desc[0]
        last = c.obs[-1]
        if last.kind != "S":
            out.append(viol("c10-dc-" + name.lower(), "%s: no finite output after 3000 constant inputs" % d_sexpr(c.desc), [], desc=d_sexpr(c.desc)))
            continue
        y = f64_of_bits(last.val)
        want = 5.0 if name == "Ss" else 0.0
        if not (abs(y - want) <= 1e-6):
            out.append(viol("c10-dc-" + name.lower(), "%s on the constant stream 5 reports %r after 3000 steps (limit %r)" % (d_sexpr(c.desc), y, want), [], desc=d_sexpr(c.desc)))
    return out

# ---------------------------------------------------------------------------------- C12
SQRT_VIEWS = {"Vsct", "Vst", "Cti", "TrendFlex", "ReFlex", "Welford", "Pfe", "Eft", "WRolling", "LnReturn", "Entropy"}
def close(a, b, c):
    """equality, or agreement to 1e-6 for views whose exact-scalar runs go through the floor-rounded surrogate sqrt/ln"""
    if a == b:
        return True
    if c.desc[0] in SQRT_VIEWS or (set(d_views(c.desc)) & SQRT_VIEWS):
        return abs(a - b) <= F(1, 10 ** 6) * max(1, abs(a), abs(b))
    return False

def c12(groups):
    out = []
    def flat(c, t, extra=0):
        n = c.desc[1] if len(c.desc) > 1 and isinstance(c.desc[1], int) else 1
        xs = c.inputs()
        w = xs[max(0, t + 1 - n - extra): t + 1]
        return len(set(w)) <= 1
    def aff(a, b, prm, t, c):
        if close(a, b, c):
            return True
        if c.desc[0] == "Cti" and t + 1 < c.desc[1]:
            return "D15"
        return False
    for (c1, c2, prm) in groups["affine"]:
        r = pointwise_rel("c12-affine-" + c1.desc[0].lower(), "must be unchanged under x -> a*x+b", [(c1, c2, prm)],
                          lambda a, b, p, t, c: aff(a, b, p, t, c) is True or (None if aff(a, b, p, t, c) == "D15" else False))
        out += r
        if not r and c1.desc[0] == "Cti":
            o1, o2 = c1.outs(), c2.outs()
            for t in range(len(o1)):
                if o1[t] is not None and o2[t] is not None and not close(o1[t], o2[t], c1) and t + 1 < c1.desc[1]:
                    out.append(viol("D15-cti-warmup-offset", "%s before its window is full is not offset-invariant: step %d gives %s vs %s under x -> x+%s"
                                    % (d_sexpr(c1.desc), t + 1, o1[t], o2[t], prm[1]), [c1, c2], step=t + 1))
                    break
    def scale_inv(a, b, prm, t, c):
        if a == b:
            return True
        if c.desc[0] == "Vst" and flat(c, t):
            return "W2"
        return False
    for (c1, c2, prm) in groups["scale_inv"]:
        o1, o2 = c1.outs(), c2.outs()
        for t in range(len(o1)):
            if o1[t] == o2[t]:
                continue
            if isinstance(o1[t], str) or isinstance(o2[t], str):
                out.append(viol("c12-error", "error in %s" % d_sexpr(c1.desc), [c1, c2]))
                break
            if o1[t] is not None and o2[t] is not None and close(o1[t], o2[t], c1):
                continue
            if c1.desc[0] == "Vst" and flat(c1, t):
                out.append(viol("W2-vst-scale-flat-window", "%s on a flat window reports the value itself, so x -> %s*x changes it: %s vs %s (step %d)" % (d_sexpr(c1.desc), prm[0], o1[t], o2[t], t + 1), [c1, c2], step=t + 1))
            else:
                out.append(viol("c12-scale-" + c1.desc[0].lower(), "%s must be unchanged under x -> %s*x: step %d gives %s vs %s" % (d_sexpr(c1.desc), prm[0], t + 1, o1[t], o2[t]), [c1, c2], step=t + 1))
            break
    out += pointwise_rel("c12-scale-eq", "must scale by a under x -> a*x", groups["scale_eq"], lambda a, b, prm, t, c: close(b, prm[0] * a, c))
    def neg(a, b, prm, t, c):
        if close(b, -a, c):
            return True
        return None if flat(c, t, 1) else False
    out += pointwise_rel("c12-negation", "must be negated under x -> -x", groups["negate"], neg)
    out += pointwise_rel("c12-negation-rsi", "Rsi must map to 100-Rsi under x -> -x", groups["rsi_neg"],
                         lambda a, b, prm, t, c: True if b == 100 - a else (None if flat(c, t, 1) else False))
    out += pointwise_rel("c12-min-max", "Min(-x) must be -Max(x)", groups["minmax"], lambda a, b, prm, t, c: b == -a)
    return out

# ---------------------------------------------------------------------------------- C15
def c15(cases, rejects, what):
    out = []
    for c in cases:
        name = c.desc[0]
        if c.ctor_ok is False:
            out.append(viol("c15-ctor-" + name.lower(), "%s: constructor panicked for an admissible window length [%s]" % (d_sexpr(c.desc), what), [c]))
            continue
        if any(b.kind == "E" for b in c.obs):
            t = next(i for i, b in enumerate(c.obs) if b.kind == "E")
            f64 = c.meta.get("mode") == "f64"
            key = "c15-panic-%s%s" % (name.lower(), "-f64" if f64 else "")
            out.append(viol(key, "%s: update()/last() panicked or produced a non-finite value at operation %d [%s]" % (d_sexpr(c.desc), t + 1, what), [c] if len(c.ops) <= 120 else [], desc=d_sexpr(c.desc), op=t + 1, profile=what))
    for c in rejects:
        if c.ctor_ok is not False:
            out.append(viol("c15-accepts-" + c.desc[0].lower(), "%s: the constructor accepts a window length below the view's minimum (update() cannot handle it)" % d_sexpr(c.desc), [c]))
    return out

# ---------------------------------------------------------------------------------- C17
def lineages(c):
    """per op: (instance, lineage-after-op) for u/l ops"""
    lin = [[]]
    res = []
    for o in c.ops:
        if o[0] == "u":
            if o[1] < len(lin):
                lin[o[1]] = lin[o[1]] + [o[2]]
                res.append((o[1], tuple(lin[o[1]])))
            else:
                res.append(None)
        elif o[0] == "l":
            res.append((o[1], tuple(lin[o[1]])) if o[1] < len(lin) else None)
        else:
            lin.append(list(lin[o[1]]) if o[1] < len(lin) else [])
            res.append(None)
    return res

def c17_prepare(cases):
    viols, refs = [], []
    for c in cases:
        c.lin = lineages(c)
        need = sorted({l[1] for l in c.lin if l is not None}, key=len)
        # one reference run per maximal lineage: a lineage that is a prefix of another is read off it
        maximal = [l for l in need if not any(m != l and m[:len(l)] == l for m in need)]
        c.refs = {}
        for m in maximal:
            r = Case(c.desc, [("l", 0)] + [("u", 0, x) for x in m], {"view": c.desc[0], "regime": "reference", "role": "reference"})
            refs.append(r)
            c.refs[m] = r
    return viols, refs

def c17(cases, refs, f64=False):
    out = []
    for c in cases:
        if c.ctor_ok is False:
            continue
        for (o, b, l) in zip(c.ops, c.obs, c.lin):
            if l is None:
                if o[0] == "c" and b.kind == "CE" and "Add" not in d_views(c.desc):
                    out.append(viol("c17-clone", "%s: clone failed" % d_sexpr(c.desc), [c]))
                continue
            inst, lin = l
            ref = next(r for m, r in c.refs.items() if m[:len(lin)] == lin)
            rb = ref.obs[len(lin)]
            a = (b.kind, b.val)
            e = (rb.kind, rb.val)
            if a != e:
                out.append(viol("c17-lineage-" + c.desc[0].lower(), "%s: instance %d observed %s after the updates %s, a fresh instance fed the same updates reports %s%s"
                                % (d_sexpr(c.desc), inst, b.js(), [str(x) for x in lin][-6:], rb.js(), " [f64 bits]" if f64 else ""), [c, ref]))
                break
    return out

def c17_static():
    import glob
    pat = re.compile(r"\b(unsafe|Cell<|RefCell|static mut|thread_local|Rc<|Arc<|Atomic|Mutex|lazy_static|OnceCell|OnceLock)\b")
    hits = []
    for f in glob.glob(os.path.join(REPO, "src", "**", "*.rs"), recursive=True):
        if f.endswith("plot.rs") or f.endswith("test_data.rs"):
            continue
        src = open(f).read().split("#[cfg(test)]")[0]
        for i, line in enumerate(src.split("\n")):
            if pat.search(line) and not line.strip().startswith("//"):
                hits.append("%s:%d: %s" % (os.path.relpath(f, REPO), i + 1, line.strip()[:100]))
    if hits:
        return [viol("c17-shared-state", "shared or interior-mutable state in /repo/src: " + "; ".join(hits[:5]), [], hits=hits)]
    return []

# ---------------------------------------------------------------------------------- C18
def c18_pop(cases, bound, long=False):
    out = []
    for c in cases:
        if c.ctor_ok is False:
            continue
        B = bound(c.desc)
        pops = [b.pop for b in c.obs if b.kind in ("S", "N")]
        if not pops:
            continue
        worst = max(pops)
        if worst > B:
            t = next(i for i, p in enumerate(pops) if p > B)
            out.append(viol("c18-population-" + c.desc[0].lower(), "%s holds %d buffered elements at step %d, the bound for its window lengths is %d (and %d at the end of %d steps)"
                            % (d_sexpr(c.desc), pops[t], t + 1, B, pops[-1], len(pops)), [c] if len(c.ops) <= 80 else [], desc=d_sexpr(c.desc), bound=B))
            continue
        if long and len(pops) >= 200 and pops[-1] != pops[len(pops) // 2]:
            out.append(viol("c18-growth-" + c.desc[0].lower(), "%s: buffered elements still changing between step %d (%d) and step %d (%d)" % (d_sexpr(c.desc), len(pops) // 2, pops[len(pops) // 2], len(pops), pops[-1]), [], desc=d_sexpr(c.desc)))
    return out

def c18_mem(descs, L):
    exe = build_harness("release")
    jobs = [(d, kind) for d in descs for kind in ("walk", "const", "steps")]
    inp = "".join("m%d mem %s ; %d %s\n" % (i, d_sexpr(d), L, kind) for i, (d, kind) in enumerate(jobs))
    r = subprocess.run([exe, "run", "48", "32"], input=inp, stdout=subprocess.PIPE, text=True)
    out = []
    for (d, kind), line in zip(jobs, r.stdout.strip().split("\n")):
        toks = line.split()[1:]
        if toks == ["E"] or len(toks) != 3:
            out.append(viol("c18-mem-error", "%s: could not measure (%s)" % (d_sexpr(d), line), [], desc=d_sexpr(d)))
            continue
        a, b, c_ = (int(x) for x in toks)
        if c_ > b or b > a and c_ > a:
            if c_ > a:
                out.append(viol("c18-heap-" + d[0].lower(), "%s: live heap bytes owned grow with the stream (%s stream): %d at %d updates, %d at %d, %d at %d" % (d_sexpr(d), kind, a, L, b, 2 * L, c_, 4 * L), [], desc=d_sexpr(d), bytes=[a, b, c_], stream=kind))
    return out

# ---------------------------------------------------------------------------------- C09
def c09(longs, pairs, w3, U):
    out = []
    def vals(c):
        r = []
        for b in c.obs:
            if b.kind == "S":
                r.append(f64_of_bits(b.val))
            elif b.kind == "E":
                r.append(None)
        return r
    for c in longs:
        name = c.desc[0]
        vs = vals(c)
        if c.ctor_ok is False or None in vs or any(not math.isfinite(v) for v in vs):
            out.append(viol("c09-nonfinite-" + name.lower(), "%s: panic or non-finite output on a bounded stream of %d values" % (d_sexpr(c.desc), len(c.ops)), [], desc=d_sexpr(c.desc)))
            continue
        if not vs:
            continue
        bound = {"TrendFlex": 5.0 + 1e-9, "ReFlex": 50.0, "Lrsi": 1.0 + 1e-9, "Eft": math.log(199) + 1e-9}.get(name, 20.0 * 5 * U)
        worst = max(abs(v) for v in vs)
        if worst > bound:
            out.append(viol("c09-unbounded-" + name.lower(), "%s: |output| reaches %g on inputs bounded by %d (bound %g)" % (d_sexpr(c.desc), worst, 5 * U, bound), [], desc=d_sexpr(c.desc)))
            continue
        h = len(vs) // 2
        if h >= 4 and max(abs(v) for v in vs[h:]) > 4 * max(1e-9, max(abs(v) for v in vs[:h])) and max(abs(v) for v in vs[h:]) > 10 * U:
            out.append(viol("c09-growing-" + name.lower(), "%s: output magnitude keeps growing with the stream length" % d_sexpr(c.desc), [], desc=d_sexpr(c.desc)))
    def lastv(c):
        b = c.obs[-1]
        return f64_of_bits(b.val) if b.kind == "S" else None
    for (c1, c2) in pairs:
        a, b = lastv(c1), lastv(c2)
        name = c1.desc[0]
        if a is None or b is None:
            if c1.obs[-1].kind == "E" or c2.obs[-1].kind == "E":
                out.append(viol("c09-nonfinite-" + name.lower(), "%s: failure on a bounded stream" % d_sexpr(c1.desc), [], desc=d_sexpr(c1.desc)))
            continue
        scale_ = max(1.0, abs(a), abs(b))
        if abs(a - b) > 1e-6 * scale_:
            out.append(viol("c09-fading-" + name.lower(), "%s: two streams with a common tail of %d values still differ: %r vs %r" % (d_sexpr(c1.desc), len(c1.ops) - 40, a, b), [], desc=d_sexpr(c1.desc)))
    a, b = lastv(w3[0]), lastv(w3[1])
    if a is not None and b is not None and abs(a - b) > 1e-6:
        out.append(viol("W3-lrsi-fading-constant-tail", "LaguerreRSI(16): prefixes 10..14 and 2,1 followed by 4000 x the constant 5 give %r and %r" % (a, b), [], desc="(Lrsi 16 Echo)"))
    return out

# ---------------------------------------------------------------------------------- C16
RESIDUE_M2 = F(2, 10 ** 13)        # ~ 900 ulps of M^2
RESIDUE_MEAN = F(2, 10 ** 13)
def _welford_residue_explains(cf, i, n, name, x, exact):
    """Is the f64 error of Vst / Vsct at operation i no larger than what the known WelfordOnline residue explains?  The residue class is
    identified quantitatively: the running m2 carries an absolute error of at most 2e-13 x M^2 and the running mean one of at most
    2e-13 x M (M = largest magnitude delivered so far; observed: ~1e2 ulps after 1e4 updates), which x/std and (x-mean)/std amplify by
    1/(2 m2) resp. 1/std on a nearly flat window.  Anything larger than that is NOT this finding and is reported as a violation."""
    vals = [o[2] for o in cf.ops[:i + 1] if o[0] in ("u", "q", "v")]
    if len(vals) < 2:
        return False
    M = max(abs(v) for v in vals)
    w = vals[-n:]
    mean = sum(w) / len(w)
    m2 = sum((v - mean) ** 2 for v in w)
    if m2 == 0 or M == 0:
        return False
    rel_std = RESIDUE_M2 * M * M / (2 * m2)
    if rel_std > F(1, 2):
        rel_std = F(1, 2)          # beyond first order the class is the flat-window finding, judged by the flat rule
    allowed = abs(exact) * rel_std
    if name == "Vsct":
        std = math.sqrt(float(m2) / max(len(w) - 1, 1))
        allowed += RESIDUE_MEAN * M / F(std)
    return abs(x - exact) <= allowed

VALUE_LIKE = {"Sma", "Cumulative", "Alma", "Welford", "WelfordMean", "Vst", "Ema", "Min", "Max", "WRolling", "WRollingMean", "Cyber"}
C16_WIDTH = {"Rsi": F(100), "Cog": None}
def c16(groups, tol=None, prefix="c16"):
    out = []
    for (kind, cf, ce, flatv) in groups:
        name = cf.desc[0]
        n = cf.desc[1] if len(cf.desc) > 1 and isinstance(cf.desc[1], int) else 1
        xs = [abs(o[2]) for o in cf.ops if o[0] in ("u", "q", "v")]
        mag = max(xs) if xs else F(1)
        if name == "Cumulative":
            mag = mag * n
        width = {"Rsi": F(100), "Roc": None, "Cog": F(max(n - 1, 1))}.get(name, F(2))
        scale_ = mag if name in VALUE_LIKE else width
        if name == "Roc":
            scale_ = F(100)
        if name == "WelfordVar":
            scale_ = mag * mag
        if name == "Vst":
            scale_ = mag          # value-like when the window is flat; otherwise x/std, judged relative to its own size below
        t = tol if tol is not None else (F(1, 10 ** 6) if kind == "long" or kind == "f32" else F(1, 10 ** 4))
        worst = None
        residue = None
        pos = [i for i, o in enumerate(cf.ops) if o[0] in ("u", "l", "v")]
        if kind == "flat":
            pos = pos[-1:]
        for i in pos:
            bf, be = cf.obs[i], ce.obs[i]
            if bf.kind == "-" or be.kind == "-":
                continue
            if be.kind != "S":
                continue
            if bf.kind != "S":
                out.append(viol(prefix + "-%s-%s%s" % ("flat" if kind == "flat" else "drift", name.lower(), "-f32" if kind == "f32" else ""),
                                "%s: floating-point run fails (%s) where the exact run reports %s" % (d_sexpr(cf.desc), bf.kind, float(be.val)), [cf] if len(cf.ops) < 120 else [], desc=d_sexpr(cf.desc)))
                worst = None
                break
            x = F(f64_of_bits(bf.val)) if math.isfinite(f64_of_bits(bf.val)) else None
            if x is None:
                out.append(viol(prefix + "-%s-%s" % ("flat" if kind == "flat" else "drift", name.lower()), "%s: non-finite floating-point output where the exact run reports %s" % (d_sexpr(cf.desc), float(be.val)), [cf] if len(cf.ops) < 120 else [], desc=d_sexpr(cf.desc)))
                worst = None
                break
            sc = scale_
            if name in ("Vst", "Vsct") and kind != "flat":
                sc = max(F(1), abs(be.val))
            err = abs(x - be.val) / sc
            if err > t and name in ("Vst", "Vsct") and kind == "long" and 2 <= n <= 128 and _welford_residue_explains(cf, i, n, name, x, be.val):
                # the known WelfordOnline residue (known_findings: *-welford-residue-*): judged and reported separately, never mixed with other errors
                if residue is None or err > residue[0]:
                    residue = (err, i, x, be.val)
                continue
            if worst is None or err > worst[0]:
                worst = (err, i, x, be.val)
        if residue is not None:
            out.append(viol(prefix.split("-")[0] + "-welford-residue-%s-f64" % name.lower(),
                            "%s: floating-point output %.12g vs exact %.12g at operation %d: off by %.3g x scale (tolerance %.0e); the error is within what an absolute residue of 2e-13 x M^2 in m2 (2e-13 x M in the mean) explains on this nearly flat window"
                            % (d_sexpr(cf.desc), float(residue[2]), float(residue[3]), residue[1] + 1, float(residue[0]), float(t)), [], desc=d_sexpr(cf.desc)))
        if worst is not None and worst[0] > t:
            out.append(viol(prefix + "-%s-%s%s" % ("flat" if kind == "flat" else "drift", name.lower(), "-f32" if kind == "f32" else ""),
                            "%s: floating-point output %.12g vs exact %.12g at operation %d: off by %.3g x scale (tolerance %.0e)%s"
                            % (d_sexpr(cf.desc), float(worst[2]), float(worst[3]), worst[1] + 1, float(worst[0]), float(t),
                               " after a volatile stretch followed by %s identical values" % cf.meta.get("flat_len") if kind == "flat" else ""),
                            [cf] if len(cf.ops) < 120 else [], desc=d_sexpr(cf.desc)))
    return out


def c12_pow2(fpairs):
    """f64: x -> 2^k x must leave scale-free views bit-identical and scale the others by exactly 2^k"""
    out = []
    for (c1, c2, (kk, inv)) in fpairs:
        o1, o2 = c1.outs(), c2.outs()
        name = c1.desc[0]
        n = c1.desc[1] if len(c1.desc) > 1 and isinstance(c1.desc[1], int) else 1
        xs = c1.inputs()
        for t, (a, b) in enumerate(zip(o1, o2)):
            if isinstance(a, str) or isinstance(b, str):
                if a != b:
                    out.append(viol("c12-pow2-" + name.lower(), "%s: failure (%s / %s) at step %d only on one of x and 2^%d x [f64]" % (d_sexpr(c1.desc), a, b, t + 1, kk), [c1, c2], step=t + 1))
                break
            if (a is None) != (b is None):
                out.append(viol("c12-pow2-" + name.lower(), "%s: readiness differs between x and 2^%d x at step %d [f64]" % (d_sexpr(c1.desc), kk, t + 1), [c1, c2], step=t + 1))
                break
            if a is None:
                continue
            if name == "Vst" and len(set(xs[max(0, t + 1 - n): t + 1])) <= 1:
                continue      # W2: flat window
            want = a if inv else bits_of_f64(f64_of_bits(a) * 2.0 ** kk)
            if want != b and not (f64_of_bits(want) == 0.0 and f64_of_bits(b) == 0.0):
                out.append(viol("c12-pow2-" + name.lower(), "%s at step %d: output %r for x, %r for 2^%d x (f64; expected %s)"
                                % (d_sexpr(c1.desc), t + 1, f64_of_bits(a), f64_of_bits(b), kk, "bit-identical" if inv else "scaled by exactly 2^%d" % kk), [c1, c2], step=t + 1))
                break
    return out
