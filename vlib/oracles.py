"""Property oracles evaluated on the implementation's own outputs (exact rationals / f64 bit patterns).
An oracle rejection is a concrete input on which the code does what the property forbids; it does not
involve the model."""
import math, struct
from fractions import Fraction as F
from .core import *

def f64_of_bits(b):
    return struct.unpack("<d", struct.pack("<Q", b))[0]
def bits_of_f64(x):
    return struct.unpack("<Q", struct.pack("<d", x))[0]

def viol(key, msg, cases, **kw):
    d = {"kind": "oracle", "cases": [c.to_json() for c in cases]}
    d.update(kw)
    return (key, msg, d)

def oracle_for(pid, cases):
    return []

# ---------------------------------------------------------------------------------- C14
def c14(groups, f64=False):
    out = []
    for g in groups:
        p = g[0]
        name = p.desc[0]
        po = p.outs()
        if any(x in ("E", "X") for x in po):
            out.append(viol("c14-error", "combinator %s failed on in-domain input" % d_sexpr(p.desc), g))
            continue
        kids = [c.outs() for c in g[1:]]
        for t in range(len(po)):
            exp = "skip"
            if name in ("Add", "Sub", "Mul", "Div"):
                a, b = kids[0][t], kids[1][t]
                if a is None or b is None:
                    exp = None
                elif a in ("E", "X") or b in ("E", "X"):
                    exp = "skip"
                elif f64:
                    x, y = f64_of_bits(a), f64_of_bits(b)
                    try:
                        exp = bits_of_f64({"Add": x + y, "Sub": x - y, "Mul": x * y}[name] if name != "Div" else x / y)
                    except (ZeroDivisionError, OverflowError):
                        exp = "skip"
                else:
                    if name == "Div" and b == 0:
                        exp = "skip"
                    else:
                        exp = {"Add": lambda: a + b, "Sub": lambda: a - b, "Mul": lambda: a * b, "Div": lambda: a / b}[name]()
            elif name in ("Gte", "Lte"):
                a = kids[0][t]
                clip = p.desc[1]
                if a is None:
                    # value held only while the child is silent: previous output (None at the start)
                    exp = po[t - 1] if t > 0 else None
                elif f64:
                    x = f64_of_bits(a)
                    c = float(clip.numerator) / float(clip.denominator)
                    exp = bits_of_f64(max(x, c) if name == "Gte" else min(x, c))
                else:
                    exp = max(a, clip) if name == "Gte" else min(a, clip)
            elif name == "Tanh":
                a = kids[0][t]
                if a is None:
                    exp = None
                elif f64:
                    exp = bits_of_f64(math.tanh(f64_of_bits(a)))
                else:
                    exp = "some"
            elif name == "Echo":
                x = p.inputs()[t]
                exp = bits_of_f64(float(x.numerator) / float(x.denominator)) if f64 else x
            elif name == "Const":
                c = p.desc[1]
                exp = bits_of_f64(float(c.numerator) / float(c.denominator)) if f64 else c
            if exp == "skip":
                continue
            got = po[t]
            ok = (got is not None) if exp == "some" else (got == exp)
            if not ok:
                out.append(viol("c14-pointwise", "%s at step %d reports %s but its children's current outputs give %s%s"
                                % (d_sexpr(p.desc), t + 1, got, exp, " (f64 bits)" if f64 else ""), g, step=t + 1))
                break
    return out

# ---------------------------------------------------------------------------------- generic helpers
from . import specs as SP
from . import surrogate as SG

def spec_for(d):
    """batch specification of a stand-alone descriptor over Echo: function xs -> expected outputs, or None"""
    name = d[0]
    n = d[1] if len(d) > 1 and isinstance(d[1], int) else None
    tbl = {"Sma": SP.sma, "Cumulative": SP.cumulative, "Min": SP.vmin, "Max": SP.vmax, "WelfordMean": SP.welford_mean,
           "WelfordVar": SP.welford_var, "Welford": SP.welford, "Vst": SP.vst, "Vsct": SP.vsct, "Hln": SP.hln, "Roc": SP.roc,
           "Entropy": SP.entropy, "Ema": SP.ema, "Alma": SP.alma, "Rsi": SP.rsi, "MyRsi": SP.myrsi, "Cti": SP.cti_full, "Net": SP.net,
           "Cog": SP.cog, "Ss": SP.ss, "Lrsi": SP.lrsi, "TrendFlex": SP.trendflex, "ReFlex": SP.reflex}
    if name in tbl and d[-1] == E:
        return lambda xs: tbl[name](n, xs)
    if name == "Cyber" and d[-1] == E and n >= 6:
        return lambda xs: SP.cyber(n, xs)
    if name == "Roofing" and d[-1] == E:
        return lambda xs: SP.roofing(d[1], d[2], xs)
    if name == "Laguerre" and d[-1] == E:
        return lambda xs: SP.laguerre(d[1], xs)
    if name == "EmaAlpha" and d[-1] == E:
        return lambda xs: SP.ema(d[1], xs, d[2])
    if name == "AlmaCustom" and d[-1] == E:
        return lambda xs: SP.alma(d[1], xs, d[2], d[3])
    if name == "Eft" and d[2] == E and d[3][0] in ("Echo", "Ema", "Sma") and d[3][-1] == E:
        return lambda xs: SP.eft(d[1], d[3], xs)
    if name == "Pfe" and d[2] == E and d[3][0] in ("Echo", "Ema", "Sma") and d[3][-1] == E:
        return lambda xs: SP.pfe(d[1], d[3], xs)
    if name in ("WRolling", "WRollingMean", "Drawdown", "LnReturn") and d[-1] == E:
        f = {"WRolling": SP.wrolling, "WRollingMean": SP.wrolling_mean, "Drawdown": SP.drawdown, "LnReturn": SP.lnreturn}[name]
        return lambda xs: f(0, xs)
    return None

def spec_check(pid, cases, what):
    """implementation's outputs against the batch specification, exactly"""
    out = []
    for c in cases:
        f = spec_for(c.desc)
        if f is None:
            continue
        got = c.outs()
        if "E" in got or "X" in got or c.ctor_ok is False:
            out.append(viol(pid.lower() + "-error", "%s failed (panic / non-finite) on in-domain input" % d_sexpr(c.desc), [c]))
            continue
        exp = f(c.inputs())
        for t, (e, g) in enumerate(zip(exp, got)):
            if e == "skip":
                continue
            if e != g:
                out.append(viol("%s-spec-%s" % (pid.lower(), c.desc[0].lower()),
                                "%s at step %d reports %s, %s gives %s" % (d_sexpr(c.desc), t + 1, g, what, e), [c], step=t + 1, expected=str(e)))
                break
    return out

def no_error(pid, cases):
    out = []
    for c in cases:
        if c.ctor_ok is False or any(b.kind in ("E",) for b in c.obs):
            out.append(viol(pid.lower() + "-error", "%s failed (panic / non-finite) on in-domain input" % d_sexpr(c.desc), [c]))
    return out

def approx(x):
    return float(x) if x is not None and not isinstance(x, str) else x

# ---------------------------------------------------------------------------------- C01
def c01_chain(groups, f64=False):
    """group = (chain case, inner case, replay case): chain output == replay of W(Echo) on the inner outputs"""
    out = []
    for (chain, inner, rep) in groups:
        a = chain.outs()
        b = [None if o.kind == "N" else o.val if o.kind == "S" else o.kind for o in rep.obs]
        if a != b:
            t = next(i for i in range(min(len(a), len(b))) if a[i] != b[i]) if len(a) == len(b) else 0
            out.append(viol("c01-chain", "chain %s differs at step %d from feeding its stand-alone inner view's outputs into %s (%s vs %s)%s"
                            % (d_sexpr(chain.desc), t + 1, d_sexpr(rep.desc), a[t], b[t], " [f64 bits]" if f64 else ""), [chain, inner, rep], step=t + 1))
    return out

def c01_binary(groups):
    out = []
    for (p, a, b) in groups:
        po, ao, bo = p.outs(), a.outs(), b.outs()
        for t in range(len(po)):
            both = ao[t] is not None and bo[t] is not None
            if (po[t] is not None) != both:
                out.append(viol("c01-binary", "%s at step %d reports %s while children report %s / %s" % (d_sexpr(p.desc), t + 1, po[t], ao[t], bo[t]), [p, a, b], step=t + 1))
                break
    return out

def c01_probes(cases):
    out = []
    for c in cases:
        xs = c.inputs()
        shown = [fq(x) if not c.meta.get("mode") == "f64" else None for x in xs]
        for k, log in c.probes.items():
            got = [F(v) for v in log] if c.meta.get("mode") != "f64" else log
            exp = xs if c.meta.get("mode") != "f64" else None
            if exp is not None and got != exp:
                out.append(viol("c01-leaves", "leaf %d of %s received %s instead of the raw inputs %s" % (k, d_sexpr(c.desc), [str(g) for g in got][:8], [str(x) for x in xs][:8]), [c]))
                break
        if not c.probes:
            out.append(viol("c01-leaves", "no probe reported for %s" % d_sexpr(c.desc), [c]))
    return out

# ---------------------------------------------------------------------------------- C03
def c03(pairs):
    """pairs of (case1, case2, K, suffix_len, view): outputs on the common suffix from position K on must agree"""
    out = []
    for (c1, c2, K, sl, exc) in pairs:
        o1, o2 = c1.outs(), c2.outs()
        x1 = c1.inputs()
        for i in range(K - 1, sl):
            a, b = o1[len(o1) - sl + i], o2[len(o2) - sl + i]
            if a == b:
                continue
            s = x1[len(x1) - sl:]
            name = c1.desc[0]
            n = c1.desc[1]
            if name == "MyRsi" and len(set(s[max(0, i - n): i + 1])) == 1:
                continue        # explicitly holding: flat window
            if name == "Roc" and i - n >= 0 and s[i - n] == 0:
                continue        # explicitly holding: zero base
            out.append(viol("c03-memory-" + name.lower(), "%s: two histories sharing their last %d values give %s and %s (position %d of the common suffix, K=%d)"
                            % (d_sexpr(c1.desc), sl, a, b, i + 1, K), [c1, c2], suffix_len=sl, K=K))
            break
    return out

# ---------------------------------------------------------------------------------- C04 / C07 hull-type checks
def c04_single(cases):
    out = []
    for c in cases:
        name, n = c.desc[0], c.desc[1]
        xs, got = c.inputs(), c.outs()
        for t, g in enumerate(got):
            if g is None or isinstance(g, str):
                continue
            w = xs[:t + 1] if name == "Ema" else xs[max(0, t + 1 - n): t + 1]
            if not (min(w) <= g <= max(w)):
                out.append(viol("c04-hull-" + name.lower(), "%s at step %d reports %s outside the hull [%s, %s] of the values it averages" % (d_sexpr(c.desc), t + 1, g, min(w), max(w)), [c], step=t + 1))
                break
            if len(set(xs[:t + 1])) == 1 and g != xs[0]:
                out.append(viol("c04-constant-" + name.lower(), "%s does not reproduce the constant input %s: %s" % (d_sexpr(c.desc), xs[0], g), [c], step=t + 1))
                break
    return out

def pointwise_rel(key, msg, pairs, rel):
    """pairs: (base case, transformed case, params); rel(base_out, transformed_out, params, t, base_case) -> bool"""
    out = []
    for (c1, c2, prm) in pairs:
        o1, o2 = c1.outs(), c2.outs()
        for t, (a, b) in enumerate(zip(o1, o2)):
            if isinstance(a, str) or isinstance(b, str):
                out.append(viol(key + "-error", "error during %s" % d_sexpr(c1.desc), [c1, c2]))
                break
            if (a is None) != (b is None):
                out.append(viol(key, "%s: readiness differs at step %d (%s vs %s) %s" % (d_sexpr(c1.desc), t + 1, a, b, msg), [c1, c2], step=t + 1, params=str(prm)))
                break
            if a is None:
                continue
            r = rel(a, b, prm, t, c1)
            if r is False:
                out.append(viol(key, "%s at step %d: %s -> %s %s (%s)" % (d_sexpr(c1.desc), t + 1, a, b, msg, prm), [c1, c2], step=t + 1, params=str(prm)))
                break
    return out

# ---------------------------------------------------------------------------------- C07
def ulps_tol(bound, f64):
    if not f64:
        return F(0)
    b = abs(float(bound)) if bound is not None else 1.0
    return F(max(b, 1e-300)) * F(4, 2 ** 52)

def c07(cases, f64=False):
    from .props import range_of
    out = []
    for c in cases:
        name = c.desc[0]
        n = c.desc[1] if len(c.desc) > 1 and isinstance(c.desc[1], int) else None
        xs = c.inputs()
        got = c.outs()
        if f64:
            got = [None if g is None else g if isinstance(g, str) else F(f64_of_bits(g)) if math.isfinite(f64_of_bits(g)) else "E" for g in got]
        def bad(msg, t, key=None):
            k = key or ("c07-range-" + name.lower() + ("-f64" if f64 else ""))
            out.append(viol(k, "%s at step %d: %s%s" % (d_sexpr(c.desc), t + 1, msg, " [f64]" if f64 else ""), [c], step=t + 1))
        prev = None
        for t, g in enumerate(got):
            if g is None:
                continue
            if isinstance(g, str):
                bad("error / non-finite value", t, "c07-error-" + name.lower() + ("-f64" if f64 else ""))
                break
            r = range_of(c.desc)
            if r is not None:
                lo, hi = r
                if (lo is not None and g < lo - ulps_tol(lo, f64)) or (hi is not None and g > hi + ulps_tol(hi, f64)):
                    bad("value %s (~%.12g) outside [%s, %s]" % (g if not f64 else float(g), float(g), lo, hi), t)
                    break
            if name == "Drawdown":
                if g >= 1 or (prev is not None and g < prev):
                    bad("drawdown %s not in [0,1) / decreasing" % g, t)
                    break
                prev = g
            if name == "Vsct" and not f64:
                # |Vsct| <= (N-1)/sqrt(N): compare squares; the surrogate sqrt floors, allow 1e-6
                if g * g * n > F(n - 1) ** 2 * (1 + F(1, 10 ** 6)):
                    bad("|Vsct| = %.9g exceeds (N-1)/sqrt(N)" % abs(float(g)), t)
                    break
            if name == "Vsct" and f64 and abs(float(g)) > (n - 1) / math.sqrt(n) * (1 + 1e-12):
                bad("|Vsct| = %.17g exceeds (N-1)/sqrt(N)" % abs(float(g)), t)
                break
            if name == "Cog":
                k = min(n, t + 1)
                if abs(g) > F(n - 1, 2) + ulps_tol(F(n - 1, 2), f64):
                    bad("|CoG| = %s exceeds (N-1)/2" % g, t)
                    break
            if name in ("Min", "Max", "Sma", "Alma") and c.desc[-1] == E:
                xx = [F(x) for x in xs] if not f64 else [F(float(x.numerator) / float(x.denominator)) for x in xs]
                w = xx[max(0, t + 1 - n): t + 1]
                tol = ulps_tol(max(abs(x) for x in w), f64) * (n if name in ("Sma", "Alma") else 0)
                if not (min(w) - tol <= g <= max(w) + tol):
                    bad("%s outside [min, max] of its window" % g, t)
                    break
                if name == "Min" and g != min(w) or name == "Max" and g != max(w):
                    bad("%s is not the extremum of the window" % g, t)
                    break
            if name in ("Gte", "Lte"):
                clip = c.desc[1]
                cl = clip if not f64 else F(float(clip.numerator) / float(clip.denominator))
                if (name == "Gte" and g < cl) or (name == "Lte" and g > cl):
                    bad("%s violates the clip %s" % (g, clip), t)
                    break
    return out

# ---------------------------------------------------------------------------------- C08
def c08(cases, warm, f64=False):
    out = []
    for c in cases:
        name = c.desc[0]
        obs = [(None if b.kind == "N" else "v" if b.kind == "S" else b.kind) for b in c.obs]
        if c.ctor_ok is False or "E" in obs:
            out.append(viol("c08-error-" + name.lower() + ("-f64" if f64 else ""), "%s: panic or non-finite value on in-domain input%s" % (d_sexpr(c.desc), " [f64]" if f64 else ""), [c] if len(c.ops) < 200 else [], desc=d_sexpr(c.desc)))
            continue
        if c.meta.get("regime") == "starved":
            if len(set(b.raw.split("@")[0] for b in c.obs)) != 1:
                out.append(viol("c08-starved", "%s changed its answer although its inner view never delivered" % d_sexpr(c.desc), [c]))
            continue
        seen = False
        for t, o in enumerate(obs):
            if o == "v":
                seen = True
            elif seen and o is None:
                out.append(viol("c08-relapse-" + name.lower(), "%s: readiness reverted to None at step %d" % (d_sexpr(c.desc), t + 1), [c] if len(c.ops) < 200 else [], step=t + 1))
                break
        if f64 or c.meta.get("chain") or c.desc[-1] != E:
            continue
        n = c.desc[1] if len(c.desc) > 1 and isinstance(c.desc[1], int) else None
        first = next((t + 1 for t, o in enumerate(obs) if o == "v"), None)
        L = len(obs)
        exp = None
        if name in warm:
            exp = warm[name](n)
        elif name in ("Gte", "Lte", "Tanh", "Laguerre", "Echo"):
            exp = 1
        elif name == "LnReturn":
            exp = 2
        elif name == "Roofing":
            exp = c.desc[1] + c.desc[2] + 1
        if exp is not None and exp <= L and first != exp:
            out.append(viol("c08-warmup-" + name.lower(), "%s first reports at value %s, documented: %d" % (d_sexpr(c.desc), first, exp), [c]))
        if name in ("Welford", "Vst", "Vsct") and first is not None and not (max(1, n - 1) <= first <= max(1, n)):
            out.append(viol("c08-warmup-" + name.lower(), "%s first reports at value %s, documented: between N-1 and N" % (d_sexpr(c.desc), first), [c]))
    return out

# ---------------------------------------------------------------------------------- C10
def c10(triples, consts):
    out = []
    for (cx, cy, cz, (a, b)) in triples:
        ox, oy, oz = cx.outs(), cy.outs(), cz.outs()
        for t in range(len(oz)):
            if any(isinstance(o[t], str) for o in (ox, oy, oz)):
                out.append(viol("c10-error", "error in %s" % d_sexpr(cx.desc), [cx, cy, cz]))
                break
            nn = [o[t] is None for o in (ox, oy, oz)]
            if len(set(nn)) != 1:
                out.append(viol("c10-superposition-" + cx.desc[0].lower(), "%s: readiness pattern depends on the data at step %d" % (d_sexpr(cx.desc), t + 1), [cx, cy, cz], step=t + 1))
                break
            if nn[0]:
                continue
            if oz[t] != a * ox[t] + b * oy[t]:
                out.append(viol("c10-superposition-" + cx.desc[0].lower(), "%s at step %d: view(%s*x+%s*y) = %s but %s*view(x)+%s*view(y) = %s"
                                % (d_sexpr(cx.desc), t + 1, a, b, oz[t], a, b, a * ox[t] + b * oy[t]), [cx, cy, cz], step=t + 1, a=str(a), b=str(b)))
                break
    for c in consts:
        name, n = c.desc[0], c.desc[1]
        v = c.inputs()[0]
        for t, g in enumerate(c.outs()):
            if g is None:
                continue
            want = F(0) if name == "Cyber" else v
            if g != want:
                key = "D11-cyber-small-n-dc" if (name == "Cyber" and isinstance(n, int) and n in (4, 5)) else "c10-dc-" + name.lower()
                out.append(viol(key, "%s on the constant stream %s reports %s at step %d (expected %s)" % (d_sexpr(c.desc), v, g, t + 1, want), [c], step=t + 1))
                break
    return out

def c10_dc(fcases):
    out = []
    for c in fcases:
        name = c.desc[0]
        last = c.obs[-1]
        if last.kind != "S":
            out.append(viol("c10-dc-" + name.lower(), "%s: no finite output after 3000 constant inputs" % d_sexpr(c.desc), [], desc=d_sexpr(c.desc)))
            continue
        y = f64_of_bits(last.val)
        want = 5.0 if name == "Ss" else 0.0
        if not (abs(y - want) <= 1e-6):
            out.append(viol("c10-dc-" + name.lower(), "%s on the constant stream 5 reports %r after 3000 steps (limit %r)" % (d_sexpr(c.desc), y, want), [], desc=d_sexpr(c.desc)))
    return out
