"""Steps 2 and 3 of every check: the tie to /repo and the property oracles, per property."""
import json, math, time
from fractions import Fraction as F
from .core import *
from .gen import *
from . import oracles as O
from . import specs as SP

def scale(tier):
    return 1 if tier == "quick" else 6

def summarize(cases, rule, extra=None):
    ev = len(cases)
    distinct = len({(d_sexpr(c.desc), tuple(c.ops)) for c in cases if nontrivial(c)})
    hist_view, hist_reg, errs = {}, {}, 0
    for c in cases:
        v = c.meta.get("view", c.desc[0])
        hist_view[v] = hist_view.get(v, 0) + 1
        r = c.meta.get("regime", "-")
        hist_reg[r] = hist_reg.get(r, 0) + 1
        if c.obs and any(b.kind == "E" for b in c.obs) or c.ctor_ok is False:
            errs += 1
    cov = {"evaluations": ev, "distinct_nontrivial": distinct, "rule": rule,
           "samples": [c.to_json() for c in cases[:3]],
           "views_histogram": hist_view, "regime_histogram": hist_reg, "cases_with_error_or_rejected_ctor": errs}
    if extra:
        cov.update(extra)
    return cov

def corr_violations(pid, tag, cases, accept_pop_diff=True):
    """correspondence model vs implementation; returns (violations, stats)"""
    mcases = [c for c in cases if c.meta.get("model", True)]
    res = correspondence(tag, mcases)
    viols = []
    nbad = 0
    popd = 0
    for c, (fd, pd) in zip(mcases, res):
        popd += 1 if pd else 0
        if fd != 0:
            nbad += 1
            if len(viols) < 3:
                mo = model_outputs(tag + "_m", c)
                viols.append(("correspondence", "model and implementation disagree on %s at operation %d: the theorems of %s are no longer "
                              "tied to this code (obligation: correspondence of coq/Models.v with /repo/src)" % (d_sexpr(c.desc), fd, pid),
                              {"kind": "correspondence", "case": c.to_json(), "first_diff_op": fd, "model": mo, "no_failing_input": True}))
    return viols, {"traces_validated_against_impl": len(mcases), "correspondence_mismatches": nbad, "population_differences_model_vs_impl": popd}

SVIEW = {"Sma": "SpSma", "Cumulative": "SpCumulative", "Min": "SpMin", "Max": "SpMax", "Roc": "SpRoc", "Welford": "SpWelford", "WelfordMean": "SpWelfordMean",
         "WelfordVar": "SpWelfordVar", "Vst": "SpVst", "Vsct": "SpVsct", "Hln": "SpHln", "Entropy": "SpEntropy", "Ema": "SpEma", "Alma": "SpAlma", "Rsi": "SpRsi",
         "MyRsi": "SpMyRsi", "Cti": "SpCti", "Net": "SpNet", "Cog": "SpCog", "Ss": "SpSs", "TrendFlex": "SpTrendFlex", "ReFlex": "SpReFlex", "Lrsi": "SpLrsi"}
def sview_of(d):
    """Coq `sview` term for a stand-alone descriptor over Echo, or None"""
    name = d[0]
    if d[-1] != E:
        return None
    if name in SVIEW:
        return "(%s %d)" % (SVIEW[name], d[1])
    if name == "Cyber":
        return "(%s %d)" % ("SpCyber" if d[1] >= 6 else "SpCyberGen", d[1])
    if name == "Roofing":
        return "(SpRoofing %d %d)" % (d[1], d[2])
    if name == "Laguerre":
        return "(SpLaguerre %s)" % cq(d[1])
    if name == "EmaAlpha":
        return "(SpEmaAlpha %d %s)" % (d[1], cq(d[2]))
    if name == "AlmaCustom":
        return "(SpAlmaCustom %d %s %s)" % (d[1], cq(d[2]), cq(d[3]))
    if name in ("WRolling", "WRollingMean", "Drawdown", "LnReturn"):
        return "Sp" + name
    return None

def sview_of_ma(d):
    if d[0] in ("Eft", "Pfe") and d[2] == E:
        return "(Sp%s %d %s)" % (d[0], d[1], d_coq(d[3]))
    return None

def coq_spec_check(pid, cases):
    """the implementation's outputs against the Coq specification functions the theorems are stated with (SpecExec.v)"""
    sel = [(c, sview_of(c.desc) or sview_of_ma(c.desc)) for c in cases if c.obs and c.ctor_ok and all(o[0] == "u" and o[1] == 0 for o in c.ops)]
    sel = [(c, sv) for c, sv in sel if sv and all(b.kind in ("S", "N") for b in c.obs)]
    if not sel:
        return [], {"coq_spec_cases": 0}
    nsh = min(NPROC, len(sel))
    shards = [sel[i::nsh] for i in range(nsh)]
    bodies = []
    for sh_ in shards:
        items = []
        for c, sv in sh_:
            outs = "; ".join("None" if b.kind == "N" else "Some %s" % cq(b.val) for b in c.obs)
            items.append("mkscase %s [%s] [%s]" % (sv, "; ".join(cq(x) for x in c.inputs()), outs))
        bodies.append("From Coq Require Import List ZArith QArith.\nFrom SF Require Import Models Exec SpecExec.\nImport ListNotations.\nClose Scope Q_scope. Close Scope Z_scope.\n"
                      "Definition cases : list scase := [\n" + ";\n".join(items) + "\n].\nEval vm_compute in (check_scases cases).\n")
    res = run_coq_shards(pid + "_spec", bodies)
    viols = []
    for sh_, (rc, txt) in zip(shards, res):
        prs = parse_pairs(txt) if rc == 0 else None
        if prs is None or len(prs) != len(sh_):
            raise CoqError("coqc failed on a specification shard of %s:\n%s" % (pid, txt[-2000:]))
        for (c, sv), (fd, _) in zip(sh_, prs):
            if fd != 0 and len(viols) < 3:
                viols.append(("%s-spec-%s" % (pid.lower(), c.desc[0].lower()),
                              "%s at step %d reports %s, which differs from the Coq specification %s the theorems of %s are stated with" % (d_sexpr(c.desc), fd, c.obs[fd - 1].js(), sv, pid),
                              {"kind": "oracle-coq-spec", "cases": [c.to_json()], "step": fd}))
    return viols, {"coq_spec_cases": len(sel)}

FLOAT_TIE = {"C01": 120, "C07": 240, "C14": 90, "C15": 90, "C16": 300, "C17": 150, "C02": 90, "C05": 60, "C12": 90}
SPECIAL_F64 = [0.0, -0.0, 0.0, -0.0, 1.0, -1.0, 1.0, 5e-324, -5e-324, 2.2250738585072014e-308, 1.5, 1.5, -1.5, 1e150, -1e150, 0.25, 1e-17, -1e-17, 3.0, 2.0]
def special_stream(rng, n):
    import struct
    xs = []
    while len(xs) < n:
        v = rng.choice(SPECIAL_F64)
        xs.append(v)
        if rng.chance(0.35):
            xs.append(-v if v == 0.0 else v)
    return ["x%016x" % struct.unpack("<Q", struct.pack("<d", v))[0] for v in xs[:n]]

def float_tie(pid):
    """model@float (Coq primitive binary64) against the implementation at f64 (release build), bit for bit, on fresh cases"""
    count = FLOAT_TIE.get(pid, 0) * (1 if _SEED[1] == "quick" else 4)
    if not count:
        return float_tie_long(pid, _SEED[1])
    rng = Rng(_SEED[0] * 7919 + int(pid[1:]))
    names = [n for n in ALL_UNARY if n in FLOAT_OK]
    cases = []
    for i in range(count):
        name = names[i % len(names)]
        pos = name in POSITIVE_ONLY
        inner = rng.choice([E, E] + [x for x in (INNERS_POS if pos else INNERS) if x[0] != "LnReturn"])
        d = mk_view(rng, name, inner)
        if i % 9 == 0:
            d = (rng.choice(["Add", "Sub", "Mul"]), d, mk_view(rng, rng.choice(["Sma", "Ema", "Min", "Rsi"])))
        if not float_executable(d):
            continue
        reg, xs = gen_stream(rng, 24 + rng.below(24), positive=pos, grid=rng.choice([10, 7, 1000, 3, 10, 7, 4]))
        if rng.chance(0.25):
            k_ = rng.below(len(xs))
            xs[k_] = xs[k_] * 1000000
        elif rng.chance(0.3):
            # whole stream at an unusual magnitude / beyond the exact integer range of f32 and i32
            kind = rng.choice(["e-12", "e-6", "e9", "e12", "e15", "+2^24", "+2^31", "+2^53"])
            if kind.startswith("e"):
                m = F(10) ** int(kind[1:])
                xs = [x * m for x in xs]
            else:
                off = F(2) ** int(kind[3:]) + 1
                xs = [x + off for x in xs]
            reg = reg + "/" + kind
        if i % 5 == 4 and not pos:
            # special values as raw bit patterns: signed zeros in both orders, exact repeats, subnormals, tiny and large magnitudes
            xs = special_stream(rng, len(xs))
            reg = "f64-special-values"
        ops = []
        for x in xs:
            ops.append(("u", 0, x))
            if rng.chance(0.1):
                ops.append(("l", 0))
        if rng.chance(0.2) and "Add" not in d_views(d):
            ops.insert(len(ops) // 2, ("c", 0))
            ops += [("u", 1, xs[0]), ("l", 0), ("u", 0, xs[-1])]
        cases.append(Case(d, ops, {"view": name, "regime": reg, "mode": "f64", "model": False}))
    run_impl(cases, mode="f64", profile="release")
    res = float_correspondence(pid, cases)
    viols = []
    for c, fd in zip(cases, res):
        if fd != 0 and len(viols) < 2:
            viols.append(("float-correspondence", "model@float and the implementation at f64 differ bit-wise on %s at operation %d: the float-level theorems of %s are no longer tied to this code" % (d_sexpr(c.desc), fd, pid),
                          {"kind": "float-correspondence", "case": c.to_json(), "first_diff_op": fd, "no_failing_input": True}))
    lv, lst = float_tie_long(pid, _SEED[1])
    return viols + lv, dict({"float_cases_bit_exact": len(cases), "float_mismatches": sum(1 for x in res if x)}, **lst)

# views a property's long float tie concentrates on (default: every float-executable view)
LONG_TIE_VIEWS = {"C02": ["Sma", "Cumulative", "Min", "Max", "Welford", "WelfordMean", "WelfordVar", "Hln", "Roc", "Vst", "Vsct"], "C04": ["Sma", "Ema", "EmaAlpha"],
                  "C05": ["Rsi", "MyRsi"], "C06": ["Cti", "Net", "Cog"], "C13": ["WRolling", "WRollingMean"]}
def lcg_walk(n, s, c=2000):
    """the integer walk of FloatExec.walk_ops (quarter units)"""
    out = []
    for _ in range(n):
        s = (s * 6364136223846793005 + 1442695040888963407) % 2 ** 64
        st = ((s >> 33) % 397 + 1) * (1 if (s >> 60) & 1 else -1)
        c = c + st if 4 <= c + st <= 4000 else c - st
        out.append(c)
    return out

def obs_hash(obs):
    """FloatExec.hash_obs over the implementation's observations"""
    h = 7
    P = 2 ** 127 - 1
    for b in obs:
        if b.kind == "S":
            bits = b.val
            sign, e, m = bits >> 63, (bits >> 52) & 0x7FF, bits & ((1 << 52) - 1)
            if e == 0x7FF:
                k, sg, mm, ee = (2, 0, 0, 0) if m else (1, sign, 0, 0)
            elif e == 0:
                k, sg, mm, ee = (0, sign, m, -1074 if m else 0)
            else:
                k, sg, mm, ee = 0, sign, m | (1 << 52), e - 1075
            c = 5 + k + 4 * sg + 8 * mm + 2 ** 62 * (ee + 1100)
        else:
            c = {"N": 1, "E": 2, "X": 3, "C": 4, "CE": 3}[b.kind]
        h = (h * 1000003 + c) % P
    return h

def float_tie_long(pid, tier):
    """model@float against the implementation at f64 on streams of thousands of steps: every observation enters a hash computed on both
    sides (FloatExec.hash_walk_fe); the stream is the same integer recurrence on both sides.  Catches effects tied to the number of
    updates (past 2^12 in the quick tier, past 2^16 in the thorough tier) in every float-executable view."""
    rng = Rng(_SEED[0] * 104729 + int(pid[1:]))
    names = LONG_TIE_VIEWS.get(pid) or [n for n in ALL_UNARY if n in FLOAT_OK]
    cases = []
    for name in names:
        for rep in range(2 if pid in LONG_TIE_VIEWS else 1):
            n = rng.choice([2, 3, 5, 14]) if rep == 0 else rng.choice([20, 33, 64])
            if name == "Pfe":
                d = ("Pfe", max(3, min(n, 9)), E, rng.choice([E, ("Ema", 3, E), ("Sma", 2, E)]))
            elif name in WINDOWED or name in ("WelfordMean", "WelfordVar"):
                d = (name, max(n, WINDOWED.get(name, 1)), E)
            else:
                d = mk_view(rng, name)
            if not float_executable(d):
                continue
            L = 5000 if tier == "quick" else (70000 if name in O1_VIEWS or name in ("Ema", "EmaAlpha", "Laguerre", "Lrsi", "Cyber", "Min", "Max", "Hln") else 12000)
            seed = rng.below(2 ** 40) + 1
            # tenth units (not binary64 numbers: every sum rounds, so a re-associated or running-sum rewrite changes bits) for two cases out of
            # three, quarter units (all sums exact: pure logic) for the third
            den = 4 if len(cases) % 3 == 2 else 10
            xs = [F(c, den) for c in lcg_walk(L, seed)]
            cases.append((Case(d, [("v", 0, x) for x in xs], {"view": name, "regime": "lcg-walk/%d" % den, "mode": "f64", "model": False}), L, seed, den))
    run_impl([c[0] for c in cases], mode="f64", profile="release")
    nsh = min(NPROC, len(cases))
    shards = [list(range(i, len(cases), nsh)) for i in range(nsh)]
    bodies = []
    for sh_ in shards:
        items = ["hash_walk_fe_d %d%%positive %s %d %d" % (cases[k][3], d_coq_f(cases[k][0].desc), cases[k][1], cases[k][2]) for k in sh_]
        bodies.append("From Coq Require Import ZArith List Floats.\nFrom SF Require Import Res Scalar View Models Exec FloatOps FloatExec.\nImport ListNotations.\nOpen Scope Z_scope.\n"
                      "(* FloatExec.walk_ops / hash_walk_fe with the unit 1/den instead of 1/4 *)\n"
                      "Fixpoint walk_ops_d (den : positive) (n : nat) (s c : Z) : list (op float) :=\n  match n with O => [] | S n' => let '(s', c') := walk_next s c in OU 0 (f_of_q c' den) :: walk_ops_d den n' s' c' end.\n"
                      "Definition hash_walk_fe_d (den : positive) (d : desc float) (len seed : Z) : Z :=\n  match sched (guard_finite (denote d)) (walk_ops_d den (Z.to_nat len) seed 2000) with None => (-1)%Z | Some m => hash_obs m end.\n"
                      "Eval vm_compute in (map (fun z => (z, 0)) [\n" + ";\n".join(items) + "\n]).\n")
    res = run_coq_shards(pid + "_floatlong", bodies)
    viols, bad = [], 0
    for sh_, (rc, txt) in zip(shards, res):
        prs = parse_pairs(txt) if rc == 0 else None
        if prs is None or len(prs) != len(sh_):
            raise CoqError("coqc failed on a long float correspondence shard of %s:\n%s" % (pid, txt[-2500:]))
        for k, p_ in zip(sh_, prs):
            c = cases[k][0]
            if p_[0] != obs_hash(c.obs):
                bad += 1
                if len(viols) < 2:
                    try:
                        fd = float_correspondence(pid + "_locate", [c])[0]
                    except CoqError:
                        fd = 0          # could not be located (the literal form of a stream this long can exceed coqc's limits); the hashes differ all the same
                    short = Case(c.desc, c.ops[:fd] if fd > 0 else c.ops, dict(c.meta))
                    short.obs, short.ctor_ok = c.obs[:fd] if fd > 0 else c.obs, c.ctor_ok
                    viols.append(("float-correspondence", "model@float and the implementation at f64 differ bit-wise on %s at update %d of a %d-step stream: the float-level theorems of %s are no longer tied to this code"
                                  % (d_sexpr(c.desc), fd, cases[k][1], pid),
                                  {"kind": "float-correspondence", "case": short.to_json(), "first_diff_op": fd, "stream": {"generator": "FloatExec.walk_ops / props.lcg_walk", "length": cases[k][1], "seed": cases[k][2], "unit": "1/%d" % cases[k][3]}, "no_failing_input": True}))
    return viols, {"float_long_cases_hashed": len(cases), "float_long_steps": sum(c[1] for c in cases), "float_long_mismatches": bad}

NONFLOAT_LONG = ["Alma", "AlmaCustom", "Ss", "Roofing", "TrendFlex", "ReFlex", "Entropy", "LnReturn", "Eft"]
def float_spec_long(pid, tier, rng):
    """the views that need exp / cos / ln (not executable at Coq's floats, and whose exact runs are limited to a dozen steps): f64 run of
    thousands of steps against the batch specification evaluated at binary64 with libm (same formulas, tolerance 1e-6 x scale)."""
    import math
    cases, viols = [], []
    for name in NONFLOAT_LONG:
        if pid in LONG_TIE_VIEWS and name not in ("Alma", "AlmaCustom") :
            continue
        if pid in LONG_TIE_VIEWS and pid != "C04":
            continue
        d = mk_view(rng, name, E, n=rng.choice([4, 7, 12])) if name not in ("LnReturn",) else mk_view(rng, name)
        if name == "Eft":
            d = ("Eft", d[1], E, rng.choice([E, ("Ema", 3, E), ("Sma", 2, E)]))
        L = 3000 if name == "Eft" else (5000 if tier == "quick" else 70000)
        seed = rng.below(2 ** 40) + 1
        xs = [F(c, 4) for c in lcg_walk(L, seed)]
        if name == "Entropy":
            xs = [x - 500 for x in xs]
        cases.append((Case(d, [("v", 0, x) for x in xs], {"view": name, "regime": "lcg-walk", "mode": "f64", "model": False}), L, seed))
    run_impl([c[0] for c in cases], mode="f64", profile="release")
    for (c, L, seed) in cases:
        f = O.spec_for(c.desc)
        if f is None:
            continue
        exp = SP.at_float(f, [float(x) for x in c.inputs()])
        value_like = c.desc[0] in ("Alma", "AlmaCustom", "Ss")
        for t, (e, b) in enumerate(zip(exp, c.obs)):
            if e == "skip":
                continue
            g = None if b.kind == "N" else (O.f64_of_bits(b.val) if b.kind == "S" else b.kind)
            ok = (e is None and g is None) or (isinstance(e, float) and isinstance(g, float) and abs(e - g) <= 1e-6 * max(1.0, abs(e), 1000.0 if value_like else 1.0))
            if not ok:
                viols.append(O.viol("long-spec-" + c.desc[0].lower(), "%s at update %d of a %d-step stream reports %s (f64), its batch specification evaluated at binary64 gives %s"
                                    % (d_sexpr(c.desc), t + 1, L, g, e), [], desc=d_sexpr(c.desc), step=t + 1,
                                    stream={"generator": "props.lcg_walk (quarter units)", "length": L, "seed": seed, "offset": -500 if c.desc[0] == "Entropy" else 0}))
                break
    return viols, {"float_spec_long_cases": len(cases), "float_spec_long_steps": sum(c[1] for c in cases)}

# ---------------------------------------------------------------------------------- every window length
SWEEP_VIEWS = {"C02": ["Sma", "Cumulative", "Min", "Max", "Welford", "WelfordMean", "WelfordVar", "Hln", "Roc", "Entropy", "Vst", "Vsct"],
               "C04": ["Sma", "Ema", "Alma"], "C05": ["Rsi", "MyRsi"], "C06": ["Cti", "Net", "Cog"],
               "C11": ["Ss", "Roofing", "Lrsi", "Cyber", "TrendFlex", "ReFlex", "Eft", "Pfe"],
               "C08": ["Sma", "Ema", "Ss", "Rsi", "MyRsi", "Roofing", "Welford", "Vst", "Vsct"],       # documented warm-up lengths, at every N
               "C09": ["Ema", "Ss", "Roofing", "Cyber", "TrendFlex", "ReFlex", "Lrsi", "Eft"]}         # coefficients of every recursive view, at every N
SWEEP_QUADRATIC = {"Net", "Cti", "Alma", "TrendFlex", "ReFlex", "Pfe", "Eft", "Cog", "Rsi", "MyRsi", "Hln", "Vst", "Vsct", "Welford", "WelfordVar", "WelfordMean", "Min", "Max", "Entropy", "Sma", "Cumulative", "Roc"}
def _sweep_eval(job):
    """(descriptor, float inputs) -> batch specification evaluated at binary64 (runs in a worker process)"""
    d, xs = job
    f = O.spec_for(d)
    if f is None:
        return "spec-error: no batch specification for this descriptor"
    try:
        return SP.at_float(f, xs)
    except (ZeroDivisionError, ValueError, OverflowError) as e:
        return "spec-error: %s" % e

def every_n_sweep(pid, tier, rng):
    """EVERY window length from the view's minimum to 130 (and 200, 257, 500, 1000 where the specification is cheap): a short f64 run
    against the batch specification evaluated at binary64.  A coefficient, lag, warm-up or eviction rule that is wrong only for particular
    window lengths (odd ones, those above a threshold, one where an identity fails) cannot hide between the lengths a random choice happens to hit."""
    names = SWEEP_VIEWS.get(pid)
    if not names:
        return [], {}
    from multiprocessing import Pool
    cases = []
    for name in names:
        lo = {"Roofing": 2, "Cyber": 6, "Eft": 2, "Pfe": 3}.get(name, 1)
        ns = list(range(lo, 131))
        if name in ("Net", "Cti"):
            ns = list(range(lo, 41)) + [48, 63, 64, 65, 100, 127, 128, 129]
        elif name not in ("TrendFlex", "ReFlex", "Pfe", "Eft", "Alma"):
            ns += [200, 257, 500, 1000]
        for n in ns:
            if name == "Roofing":
                d = ("Roofing", n, 1 + (n % 5), E)
            elif name in ("Eft", "Pfe"):
                d = (name, n, E, [("Ema", 1, E), ("Ema", 3, E), ("Sma", 2, E)][n % 3])
            else:
                d = (name, n, E)
            L = (n + 40) if n > 60 else (2 * n + 40)
            if name == "Alma":
                L = 2 * n + 40
            seed = rng.below(2 ** 40) + 1
            xs = [F(c, 4) for c in lcg_walk(L, seed)]
            if name == "Entropy":
                xs = [x - 500 for x in xs]
            cases.append(Case(d, [("v", 0, x) for x in xs], {"view": name, "regime": "every-n", "mode": "f64", "model": False}))
    # ordinary-magnitude special values as raw bit patterns: signed zeros in both orders, exact repeats, +-1, halves (a sign taken with signum(),
    # a cache keyed by ==, a tie broken differently for -0.0 differ from the definition only here)
    import struct
    pool_vals = [0.0, -0.0, 0.0, -0.0, 1.0, -1.0, 1.0, 1.5, 1.5, -1.5, 0.25, 3.0, 2.0, 2.0, -2.0, 0.5]
    floats = {}
    for name in names:
        if name in ("Roc", "Eft", "Cog", "Welford", "WelfordVar", "Vst", "Vsct"):
            continue          # a zero base / zero denominator holds or divides: covered by the exact zero cases; exact repeats make flat windows, where the
                              # Welford family shows its KNOWN f64 residue (c16-flat-vst / c16-flat-vsct: x / residue)
        lo = {"Roofing": 2, "Cyber": 6, "Pfe": 3}.get(name, 1)
        for n in (max(lo, 2), max(lo, 3), max(lo, 5)):
            for rep in range(2):
                vals = []
                while len(vals) < 3 * n + 16:
                    v = rng.choice(pool_vals)
                    vals.append(v)
                    if rng.chance(0.35):
                        vals.append(-v if v == 0.0 else v)
                d = ("Roofing", n, 2, E) if name == "Roofing" else ((name, n, E, ("Ema", 1, E)) if name == "Pfe" else (name, n, E))
                c = Case(d, [("v", 0, "x%016x" % struct.unpack("<Q", struct.pack("<d", v))[0]) for v in vals], {"view": name, "regime": "every-n/special-values", "mode": "f64", "model": False})
                floats[id(c)] = vals
                cases.append(c)
    run_impl(cases, mode="f64", profile="release")
    jobs = [(c.desc, floats.get(id(c)) or [float(x) for x in c.inputs()]) for c in cases]
    with Pool(NPROC) as pool:
        exps = pool.map(_sweep_eval, jobs, chunksize=8)
    viols, seen = [], set()
    for c, exp in zip(cases, exps):
        name = c.desc[0]
        if name in seen:
            continue
        if isinstance(exp, str):
            viols.append(O.viol("every-n-" + name.lower(), "%s: the batch specification could not be evaluated (%s)" % (d_sexpr(c.desc), exp), [], desc=d_sexpr(c.desc)))
            seen.add(name)
            continue
        value_like = name in ("Sma", "Cumulative", "Min", "Max", "Welford", "WelfordMean", "WelfordVar", "Ema", "Alma", "Ss", "Vst")
        for t, (e, b) in enumerate(zip(exp, c.obs)):
            if e == "skip":
                continue
            g = None if b.kind == "N" else (O.f64_of_bits(b.val) if b.kind == "S" else b.kind)
            if g is None and name in ("Welford", "Vst", "Vsct") and t + 1 == c.desc[1] - 1:
                continue
            sc = max(1.0, abs(e) if isinstance(e, float) else 1.0, (1000.0 * (c.desc[1] if name == "Cumulative" else 1)) if value_like else 1.0)
            if name == "WelfordVar":
                sc = 1e6
            ok = (e is None and g is None) or (isinstance(e, float) and isinstance(g, float) and abs(e - g) <= 1e-6 * sc)
            if not ok:
                viols.append(O.viol("every-n-" + name.lower(), "%s at update %d reports %s (f64), its batch specification evaluated at binary64 gives %s [sweep over every window length]"
                                    % (d_sexpr(c.desc), t + 1, g, e), [c] if len(c.ops) < 400 else [], desc=d_sexpr(c.desc), step=t + 1))
                seen.add(name)
                break
    return viols, {"every_n_cases": len(cases), "every_n_window_lengths": "min..130" + " (+200, 257, 500, 1000 for O(1)-per-update specifications)"}

def finish(pid, tag, cases, oracle_viols, rule, extra=None):
    cv, st = corr_violations(pid, tag, cases)
    if pid in ("C01", "C08", "C15", "C17", "C18"):
        new, gone = catalogue_gaps()
        st["catalogue"] = {"views_in_repo_not_modelled": new, "modelled_views_not_in_repo": gone}
        if new or gone:
            cv = cv + [("catalogue", "the set of public views of /repo differs from the modelled catalogue (not modelled: %s; modelled but gone: %s): %s quantifies over every view and is no longer shown for them"
                        % (new, gone, pid), {"kind": "catalogue", "not_modelled": new, "gone": gone, "no_failing_input": True})]
    fv, fst = float_tie(pid)
    cv = cv + fv
    st.update(fst)
    viols = list(oracle_viols)
    if not tag.endswith("_replay"):
        lv, lst = float_spec_long(pid, _SEED[1], Rng(_SEED[0] * 15485863 + int(pid[1:])))
        viols += lv
        st.update(lst)
        ev_, est = every_n_sweep(pid, _SEED[1], Rng(_SEED[0] * 32452843 + int(pid[1:])))
        viols += ev_
        st.update(est)
    if pid in ("C02", "C04", "C05", "C06", "C10", "C11", "C13"):
        sv, sst = coq_spec_check(pid, [c for c in cases if c.meta.get("model", True)])
        keys = {v[0] for v in viols}
        viols += [v for v in sv if v[0] not in keys]
        st.update(sst)
    known = set()
    kf = os.path.join(ROOT, "known_findings.txt")
    if os.path.exists(kf):
        for line in open(kf):
            if line.startswith("known:") and ("property=%s " % pid) in line:
                known.add(line.split()[2].split("=")[1])
    if any(v[0] not in known for v in viols):
        # a concrete failing input outside the known findings exists: a correspondence failure (if any) is explained by it
        pass
    else:
        viols += cv
    cov = summarize(cases, rule, extra)
    cov.update(st)
    # evaluations = every execution of the implementation in this run; the exact-scalar cases (the ones also run through the model) are counted separately
    mult = {"f64_cases": 1, "long_f64_runs": 1, "fading_pairs": 2, "f64_vs_exact_runs": 2, "f32_runs": 2, "float_cases_bit_exact": 1, "f64_pow2_pairs": 2,
            "f64_chain_groups": 3, "heap_measurements": 1, "f64_schedules": 1, "coq_spec_cases": 0, "float_long_cases_hashed": 1, "dense_f64_vs_exact_runs": 3, "float_spec_long_cases": 1, "long_prefix_pairs": 2, "every_n_cases": 1, "million_prefix_pairs": 2}
    cov["evaluations_exact_scalar_with_model"] = cov["evaluations"]
    cov["evaluations"] = cov["evaluations"] + sum(mult[k_] * int(cov.get(k_, 0)) for k_ in mult if isinstance(cov.get(k_, 0), int))
    return {"coverage": cov, "violations": viols}

# ====================================================================================== per property
_SEED = [0, "quick"]
_T0 = [0.0]
def run(pid, tier, seed):
    _T0[0] = time.time()
    _SEED[0], _SEED[1] = seed, tier
    rng = Rng(seed * 1000 + int(pid[1:]))
    res = globals()["run_" + pid](rng, tier)
    tie_kinds = ("correspondence", "float-correspondence")
    tie_only = [v for v in res["violations"] if v[2].get("kind") in tie_kinds]
    others = [v for v in res["violations"] if v[2].get("kind") not in tie_kinds]
    known = known_keys(pid)
    if tie_only and not [v for v in others if v[0] not in known] and tier == "quick" and not os.environ.get("VERIF_NO_SEARCH"):
        # the tie broke but no oracle rejected anything: search the implementation for a concrete failing input
        # with two further seeds (time permitting) before reporting `no-failing-input-found`
        for extra in (1, 2):
            if time.time() - _T0[0] > 200:
                res["coverage"].setdefault("failing_input_search_note", "stopped early to keep the check within minutes; run --tier thorough for the full search")
                break
            # (quick-size generators with further seeds: the thorough-size ones take up to ten minutes per pass; `--tier thorough` runs them)
            _SEED[0], _SEED[1] = seed + extra, "quick"
            r2 = globals()["run_" + pid](Rng((seed + extra) * 1000 + int(pid[1:])), "quick")
            found = [v for v in r2["violations"] if v[2].get("kind") not in tie_kinds and v[0] not in known]
            if found:
                res["violations"] = found
                res["coverage"]["failing_input_search"] = {"extra_cases": r2["coverage"].get("evaluations"), "found": True,
                                                           "tie_failures_explained": [v[1][:200] for v in tie_only]}
                break
        else:
            res["coverage"]["failing_input_search"] = {"found": False, "note": "search with two further seeds accepted everything"}
    # source basis: the files this property is anchored in differ from the tree the model was last validated against.  Not an alarm in
    # itself (the correspondence above is the tie); but when the first pass found nothing, look again with two further seeds.
    try:
        from . import basis
        ch = basis.changed()
        rel = basis.relevant(pid, ch) if ch else []
    except Exception:
        ch, rel = None, []
    res["coverage"]["source_basis"] = {"changed_files": ch, "anchored_in_changed": rel}
    unknown = [v for v in res["violations"] if v[0] not in known]
    if rel and not unknown and tier == "quick" and not os.environ.get("VERIF_NO_SEARCH"):
        extra_runs = 0
        for extra in (1, 2):
            if time.time() - _T0[0] > 200:
                break           # keep the whole check within a few minutes: the slow properties get one further seed or none
            _SEED[0], _SEED[1] = seed + 7 * extra, "quick"
            r2 = globals()["run_" + pid](Rng((seed + 7 * extra) * 1000 + int(pid[1:])), "quick")
            extra_runs += 1
            found = [v for v in r2["violations"] if v[0] not in known]
            if found:
                res["violations"] = res["violations"] + found
                break
        res["coverage"]["source_basis"]["extra_seeds_run"] = extra_runs
        _SEED[0], _SEED[1] = seed, tier
    return res

def known_keys(pid):
    known = set()
    kf = os.path.join(ROOT, "known_findings.txt")
    if os.path.exists(kf):
        for line in open(kf):
            if line.startswith("known:") and ("property=%s " % pid) in line:
                known.add(line.split()[2].split("=")[1])
    return known

def replay(pid, path):
    """re-execute the cases of a replay file against the current tree: the violation is reproduced if the
    implementation still answers what was recorded (and, for single-run properties, the batch specification still
    rejects it); correspondence with the model is re-checked as well"""
    j = json.load(open(path))
    recorded = []
    def collect(x):
        if isinstance(x, dict):
            if "desc" in x and "ops" in x:
                recorded.append(x)
            for v in x.values():
                collect(v)
        elif isinstance(x, list):
            for v in x:
                collect(v)
    collect(j)
    if not recorded:
        return {"coverage": {"evaluations": 1, "distinct_nontrivial": 0, "rule": "replay: the file holds no executable case (%s: %s)" % (j.get("kind"), j.get("message", "")[:200]), "samples": [j.get("message", "")]},
                "violations": [(j.get("key", "replay"), "replay file without a concrete case: %s" % j.get("message", "")[:300], {"kind": j.get("kind"), "no_failing_input": True})]}
    cases = [Case.from_json(x) for x in recorded]
    by_mode = {}
    for c, x in zip(cases, recorded):
        by_mode.setdefault((x.get("meta") or {}).get("mode", "ex"), []).append(c)
    for mode, cs in by_mode.items():
        run_impl(cs, mode=mode if mode in ("ex", "f64", "f32") else "ex", profile="release" if mode != "ex" else "debug")
    same = all(x.get("impl") is None or [b.js() for b in c.obs][:len(x["impl"])] == x["impl"][:len(c.obs)] for c, x in zip(cases, recorded))
    viols = O.spec_check(pid, [c for c in cases if (c.meta or {}).get("mode", "ex") == "ex" and all(o[0] != "q" for o in c.ops)], "the batch specification")
    if same and not viols:
        viols = [(j.get("key", "replay"), "reproduced: the implementation still answers exactly what the replay recorded (%s)" % j.get("message", "")[:300], {"kind": "replay", "cases": recorded[:2]})]
    ex_cases = [c for c in cases if (c.meta or {}).get("mode", "ex") == "ex" and len(c.ops) <= 200 and all(o[0] in ("u", "l", "c") for o in c.ops)]
    for c in ex_cases:
        c.meta["model"] = True
    return finish(pid, pid + "_replay", ex_cases, viols, "replay of " + path, {"recorded_outputs_reproduced": same})

# ---------------------------------------------------------------------------------- C14
def run_C14(rng, tier):
    k = scale(tier)
    cases = []
    # binary combinators over pairs of children, children also run stand-alone
    kids = [E, ("Sma", 2, E), ("Ema", 3, E), ("Cumulative", 3, E), ("Min", 2, E), ("Const", F(3, 2)), ("Roc", 2, E), ("Max", 3, E)]
    groups = []
    for i in range(40 * k):
        op = ["Add", "Sub", "Mul", "Div"][i % 4]
        a = rng.choice(kids)
        b = rng.choice([x for x in kids if x[0] not in ("Roc",)] if op == "Div" else kids)
        reg, xs = gen_stream(rng, 16 + rng.below(16), positive=(op == "Div"))
        g = [Case.simple((op, a, b), xs, {"regime": reg, "view": op, "role": "parent"}),
             Case.simple(a, xs, {"role": "a", "view": a[0]}), Case.simple(b, xs, {"role": "b", "view": b[0]})]
        groups.append(g)
        cases += g
    for op in ("Add", "Sub", "Mul"):
        for (a, b) in ((E, ("Sma", 4, E)), (("Sma", 4, E), E), (("Cumulative", 2, E), ("Ema", 5, E)), (("Ema", 5, E), ("Cumulative", 2, E))):
            xs = [F(0), F(0), F(3), F(0), F(-2), F(0), F(5), F(1), F(0), F(4)]
            g = [Case.simple((op, a, b), xs, {"regime": "zeros-while-warming", "view": op, "role": "parent"}),
                 Case.simple(a, xs, {"role": "a", "view": a[0]}), Case.simple(b, xs, {"role": "b", "view": b[0]})]
            groups.append(g)
            cases += g
    for i in range(30 * k):
        name = ["Tanh", "Gte", "Lte"][i % 3]
        a = rng.choice(kids)
        d = mk_view(rng, name, a)
        reg, xs = gen_stream(rng, 16 + rng.below(16), grid=rng.choice([1, 2, 4]))
        g = [Case.simple(d, xs, {"regime": reg, "view": name, "role": "parent"}), Case.simple(a, xs, {"role": "a", "view": a[0]})]
        groups.append(g)
        cases += g
    for i in range(6 * k):
        reg, xs = gen_stream(rng, 12)
        c = F(rng.below(40) - 20, 4)
        g = [Case.simple(rng.choice([E, ("Const", c)]), xs, {"regime": reg, "role": "parent"})]
        groups.append(g)
        cases += g
    pure = []
    for g in [g_ for j_, g_ in enumerate(groups) if g_[0].desc[0] in ("Tanh", "Gte", "Lte") or j_ % 3 == 0]:
        c0 = g[0]
        ops = []
        for o in c0.ops:
            ops += [o, ("l", 0), ("l", 0)]
        pure.append(Case(c0.desc, ops, dict(c0.meta, role="repeated-last")))
    cases += pure
    run_impl(cases)
    viols = O.c14(groups)
    for c in pure:
        for i in range(0, len(c.obs), 3):
            a, b1, b2 = c.obs[i], c.obs[i + 1], c.obs[i + 2]
            if not (a.raw.split("@")[0] == b1.raw == b2.raw):
                viols.append(O.viol("c14-last-impure", "%s: last() read again after update %d gives %s then %s, the first read gave %s" % (d_sexpr(c.desc), i // 3 + 1, b1.raw, b2.raw, a.raw.split("@")[0]), [c]))
                break
    # f64: bit-identical pointwise recomputation
    f64groups = []
    fc = []
    for g in groups[:len(groups) // 2]:
        gg = [Case(c.desc, c.ops, dict(c.meta, model=False, mode="f64")) for c in g]
        f64groups.append(gg)
        fc += gg
    run_impl(fc, mode="f64")
    viols += O.c14(f64groups, f64=True)
    # f64 special values fed as raw bit patterns: signed zeros (0.0 == -0.0 but the bits differ), repeated equal values, the smallest and
    # largest magnitudes; "bit-exactly" must survive a cache keyed by ==, a sign lost at zero, a flush of tiny values
    import struct
    SPECIAL = [0.0, -0.0, 0.0, -0.0, 1.0, -1.0, 1.0, 5e-324, -5e-324, 2.2250738585072014e-308, 1.5, 1.5, -1.5, 1e300, -1e300, 0.25, 1e-17, -1e-17]
    def bits_tok(x):
        return "x%016x" % struct.unpack("<Q", struct.pack("<d", x))[0]
    sgroups, sc = [], []
    for i in range(24 * k):
        name = ["Tanh", "Gte", "Lte", "Add", "Sub", "Mul", "Div", "Echo"][i % 8]
        xs = []
        while len(xs) < 28:
            v = rng.choice(SPECIAL)
            xs.append(v)
            if rng.chance(0.35):
                xs.append(-v if v == 0.0 else v)          # a zero followed by the other zero / an exact repeat
        if name in ("Mul",):
            xs = [v for v in xs if abs(v) < 1e200]
        toks = [bits_tok(v) for v in xs]
        meta = {"regime": "f64-special-values", "view": name, "model": False, "mode": "f64", "role": "parent"}
        def mk(d, role):
            return Case(d, [("u", 0, t_) for t_ in toks], dict(meta, role=role, view=d[0]))
        if name in ("Tanh", "Gte", "Lte"):
            a = rng.choice([E, ("Mul", E, ("Const", F(0)))])
            d = (name, a) if name == "Tanh" else (name, rng.choice([F(0), F(1), F(-3, 2)]), a)
            g = [mk(d, "parent"), mk(a, "a")]
        elif name == "Echo":
            g = [mk(E, "parent")]
        else:
            b = ("Const", F(2)) if name == "Div" else rng.choice([E, ("Const", F(0)), ("Mul", E, ("Const", F(-1)))])
            a = E
            g = [mk((name, a, b), "parent"), mk(a, "a"), mk(b, "b")]
        sgroups.append(g)
        sc += g
    run_impl(sc, mode="f64")
    viols += O.c14(sgroups, f64=True)
    return finish("C14", "C14", cases, viols,
                  "combinator over random children, children run stand-alone on the same inputs; non-trivial = at least 3 distinct observations; f64 repeat of half of the groups; f64 special values as raw bit patterns (signed zeros in both orders, exact repeats, subnormals, 1e300)",
                  {"f64_cases": len(fc) + len(sc)})

# ---------------------------------------------------------------------------------- helpers
def f64_exact(bits):
    """f64 bit pattern -> exact Fraction (None if not finite or not representable as n/2^k with k small)"""
    x = O.f64_of_bits(bits)
    if x != x or x in (float("inf"), float("-inf")):
        return None
    fr = F(x)
    if fr.denominator.bit_length() > 1000 or fr.numerator.bit_length() > 1000:
        return None
    return fr

def replay_case(core_desc, inner_outs, meta, f64=False):
    ops = []
    for o in inner_outs:
        if o is None:
            ops.append(("l", 0))
        else:
            v = ("x%016x" % o) if f64 else o
            ops.append(("u", 0, v))
    return Case(core_desc, ops, meta)

def chain_groups(rng, count, names=None, f64=False):
    """(chain W(A), stand-alone A) pairs; the replay cases are built after running them"""
    names = names or ALL_UNARY
    pairs = []
    plan = []
    if count == "all":
        # thorough: every unary wrapper over every inner view of the chain catalogue
        for name in names:
            for inner in (INNERS_POS if name in POSITIVE_ONLY else INNERS):
                plan.append((name, inner))
    else:
        for i in range(count):
            name = names[i % len(names)]
            plan.append((name, rng.choice(INNERS_POS if name in POSITIVE_ONLY else INNERS)))
    for (name, inner) in plan:
        pos = name in POSITIVE_ONLY
        if inner[0] == "LnReturn":
            pos = True
        d = mk_view(rng, name, inner)
        reg, xs = stream_for(rng, d)
        if pos:
            reg, xs = gen_stream(rng, len(xs), positive=True, grid=(1 if is_heavy(d) else 4))
        meta = {"regime": reg, "view": name, "model": not f64, "mode": "f64" if f64 else "ex"}
        pairs.append((Case.simple(d, xs, dict(meta, role="chain")), Case.simple(inner, xs, dict(meta, role="inner", view=inner[0])), mk_view_over_echo(d)))
    return pairs

def mk_view_over_echo(d):
    """the same wrapper with its view argument replaced by Echo"""
    kinds = ARITY[d[0]]
    i = 1 + kinds.index("v")
    return d[:i] + (E,) + d[i + 1:]

# ---------------------------------------------------------------------------------- C01
def run_C01(rng, tier):
    k = scale(tier)
    pairs = chain_groups(rng, len(ALL_UNARY) * 2) if tier == "quick" else chain_groups(rng, "all") + chain_groups(rng, len(ALL_UNARY) * 3)
    cases = [c for p in pairs for c in p[:2]]
    # binary combinators: value only when both children have one
    kids = INNERS + [E, ("Rsi", 3, E), ("Ss", 2, E)]
    bgroups = []
    bplan = [(["Add", "Sub", "Mul", "Div"][i % 4], None, None) for i in range(16)]
    if tier == "thorough":
        # every binary combinator over every ordered pair of child views
        bplan = [(op, a, b) for op in ("Add", "Sub", "Mul", "Div") for a in kids for b in (INNERS_POS if op == "Div" else kids)]
    for (op, a, b) in bplan:
        if a is None:
            a, b = rng.choice(kids), rng.choice(INNERS_POS if op == "Div" else kids)
        d = (op, a, b)
        reg, xs = stream_for(rng, d)
        if needs_positive(d) or "LnReturn" in d_views(d):
            reg, xs = gen_stream(rng, len(xs), positive=True, grid=1 if is_heavy(d) else 4)
        g = (Case.simple(d, xs, {"regime": reg, "view": op}), Case.simple(a, xs, {"view": a[0]}), Case.simple(b, xs, {"view": b[0]}))
        bgroups.append(g)
        cases += g
    # one child exactly 0 (or any value) while the other is still warming up, in both positions
    for op in ("Add", "Sub", "Mul", "Div"):
        for fast, slow in ((E, ("Sma", 4, E)), (("Cyber", 5, E), ("Ema", 6, E)), (("Cumulative", 2, E), ("Rsi", 5, E))):
            for (a, b) in ((fast, slow), (slow, fast)):
                if op == "Div" and b is fast:
                    continue
                xs = [F(0), F(0), F(3), F(0), F(-2), F(0), F(5), F(1), F(0), F(4)]
                d = (op, a, b)
                g = (Case.simple(d, xs, {"regime": "zeros-while-warming", "view": op}), Case.simple(a, xs, {"view": a[0]}), Case.simple(b, xs, {"view": b[0]}))
                bgroups.append(g)
                cases += g
    # probe leaves
    P = lambda k_: ("Probe", k_)
    trees = [("Add", ("Sma", 2, P(1)), ("Ema", 3, P(2))), ("Sub", P(1), ("Mul", P(2), ("Roc", 2, P(3)))), ("Pfe", 4, ("Sma", 2, P(1)), ("Ema", 2, E)),
             ("Eft", 3, ("Cumulative", 2, P(1)), E), ("Tanh", ("Gte", F(1, 2), ("Min", 2, P(1)))), ("Div", ("Max", 2, P(1)), ("Const", F(2))),
             ("Vst", 3, ("Hln", 2, ("Lte", F(3), P(1)))), ("Mul", ("Rsi", 2, ("Cog", 3, P(1))), ("Net", 3, ("Cti", 2, P(2)))),
             ("Lrsi", 3, ("Laguerre", F(1, 2), ("Alma", 2, P(1)))), ("Add", ("Cyber", 3, ("Welford", 2, P(1))), ("Entropy", 2, ("MyRsi", 2, ("Vsct", 2, P(2))))),
             ("Sub", ("TrendFlex", 3, P(1)), ("ReFlex", 3, ("Ss", 2, ("Roofing", 2, 1, P(2))))), ("WRolling", ("LnReturn", ("Drawdown", ("WRollingMean", P(1))))), ("Sub", ("Drawdown", P(1)), ("LnReturn", ("Max", 2, P(2))))]
    pcases = []
    for tr in trees:
        reg, xs = gen_stream(rng, 10, positive=True, grid=1 if is_heavy(tr) else 2)
        pcases.append(Case.simple(tr, xs, {"regime": reg, "view": "probe-tree"}))
    cases += pcases
    run_impl(cases)
    groups, reps = [], []
    for (ch, inn, core_d) in pairs:
        r = replay_case(core_d, inn.outs(), {"view": core_d[0], "role": "replay"}) if "E" not in inn.outs() else None
        if r is not None:
            groups.append((ch, inn, r))
            reps.append(r)
    run_impl(reps)
    cases += reps
    viols = O.c01_chain(groups) + O.c01_binary(bgroups) + O.c01_probes(pcases)
    # f64: bit-identical
    fpairs = chain_groups(rng, len(ALL_UNARY), f64=True)
    fc = [c for p in fpairs for c in p[:2]]
    run_impl(fc, mode="f64")
    fgroups, freps = [], []
    for (ch, inn, core_d) in fpairs:
        if "E" in inn.outs() or "E" in ch.outs():
            continue
        r = replay_case(core_d, inn.outs(), {"view": core_d[0], "role": "replay", "model": False, "mode": "f64"}, f64=True)
        if r is not None:
            fgroups.append((ch, inn, r))
            freps.append(r)
    run_impl(freps, mode="f64")
    viols += O.c01_chain(fgroups, f64=True)
    return finish("C01", "C01", cases, viols,
                  "every unary wrapper over a random inner view with warm-up / non-identity output: chain vs stand-alone inner + replay of the wrapper over Echo (exact at the rational scalar, bit-exact at f64); binary combinators over pairs; descriptor trees with logging Probe leaves",
                  {"f64_chain_groups": len(fgroups), "chain_groups": len(groups), "probe_trees": len(pcases)})

# ---------------------------------------------------------------------------------- long / huge-window f64 runs against the exact scalar
O1_VIEWS = {"Sma", "Cumulative", "Roc", "Welford", "WelfordMean", "WelfordVar", "Vst", "Vsct", "WRolling", "WRollingMean", "Gte", "Lte"}   # O(1) work per update
def bounded_walk(rng, L, grid=100, minstep=None):
    c = F(500)
    xs = []
    for _ in range(L):
        if minstep is not None:
            st = F(rng.below((99 - minstep) * grid + 1) + minstep * grid, grid) * rng.choice([1, -1])     # steps in [minstep, 99] on the 1/grid lattice
        else:
            st = F(rng.below(99 * grid) + 1, grid) * rng.choice([1, -1])      # non-zero steps, reflected at the borders of [1, 1000]
        c = c + st if F(1) <= c + st <= F(1000) else c - st
        xs.append(c)
    return xs

def dense_vs_exact(rng, tier, names, prefix, L=None, huge=True, spec=None, grid=100, minstep=None):
    """f64 (release) against the same code at the exact scalar, compared at EVERY step: a stream long enough to pass the usual counter
    thresholds (2^12 in the quick tier, 2^16 and 2^17 in the thorough tier for O(1) views), and window lengths beyond 2^8 (2^16 thorough).
    Effects tied to the number of updates or to a large window cannot hide between samples.  Returns (groups, violations)."""
    groups = []
    for name in names:
        unary = name in ("WRolling", "WRollingMean")
        LL = L or (9000 if tier == "quick" else (140000 if name in O1_VIEWS else 20000))
        if name in ("Ema", "Cyber", "EmaAlpha"):
            LL = 1200          # the exact run of a recursive view grows by a few bits per step
        if name in ("Net", "Cti"):
            LL = min(LL, 5000)
        n = rng.choice([2, 3, 7, 20])
        d = (name, E) if unary else (name, n, E)
        xs = bounded_walk(rng, LL, grid, minstep)
        meta = {"view": name, "regime": "dense-long", "model": False}
        groups.append(("long", Case(d, [("v", 0, x) for x in xs], dict(meta, mode="f64")), Case(d, [("v", 0, x) for x in xs], dict(meta, mode="ex")), None))
        if huge and not unary and name not in ("Ema", "Cyber", "EmaAlpha"):
            ns = [257 + rng.below(70)]
            if tier != "quick" and name in O1_VIEWS | {"Min", "Max", "Hln"}:
                ns.append(65537 + rng.below(5000))
            for n in ns:
                steps = n + 40 if name in ("Net", "Cti") else (2 * n + 50)
                if n > 60000:
                    steps = 2 * n + 50
                xs = bounded_walk(rng, steps, grid, minstep)
                meta = {"view": name, "regime": "huge-window", "model": False}
                groups.append(("long", Case((name, n, E), [("v", 0, x) for x in xs], dict(meta, mode="f64")), Case((name, n, E), [("v", 0, x) for x in xs], dict(meta, mode="ex")), None))
    run_impl([g[1] for g in groups], mode="f64", profile="release")
    if spec is None:
        run_impl([g[2] for g in groups], mode="ex", profile="release", prec=(96, 64))
        return groups, O.c16(groups, prefix=prefix)
    # the exact run is also held against the batch specification (the f64 run and the exact run execute the same code, so their
    # agreement alone says nothing about what that code computes); the specification uses the default surrogate precision
    run_impl([g[2] for g in groups], mode="ex", profile="release", prec=(96, 64))
    viols = O.c16(groups, prefix=prefix)
    sp = [Case(g[2].desc, g[2].ops, dict(g[2].meta)) for g in groups if (len(g[2].desc) < 2 or not isinstance(g[2].desc[1], int) or g[2].desc[1] <= 1000) and len(g[2].ops) <= 20000]
    run_impl(sp, mode="ex", profile="release")
    viols += O.spec_check(spec[0], sp, spec[1])
    return groups, viols

def million_constant(rng, tier, names, prefix):
    """f64, a CONSTANT stream of 10^6 values (C16 / C13: "however long the stream"; the exact answers on a constant stream are known in closed form):
    a sum of squares minus a squared sum, a running sum re-based now and then, any accumulator that gains an ulp per update shows only here."""
    L = 1000000 if tier == "quick" else 4000000
    want = {"Sma": "c", "Ema": "c", "Alma": "c", "Min": "c", "Max": "c", "WelfordMean": "c", "WRollingMean": "c", "Vst": "c", "Cumulative": "nc",
            "Welford": 0, "WelfordVar": 0, "Vsct": 0, "Hln": 0, "Cti": 0, "Net": 0, "Roc": 0, "Rsi": 100, "MyRsi": 0, "Cog": 0, "WRolling": 0, "Drawdown": 0, "LnReturn": 0}
    cases = []
    for name in names:
        if name not in want:
            continue
        for c in (F(9999, 10), rng.choice([F(33, 10), F(6403, 10), F(53, 10), F(1, 10) * (1 + rng.below(9000))])):
            n = rng.choice([2, 5, 14])
            d = (name, E) if name in ("WRolling", "WRollingMean", "Drawdown", "LnReturn") else (name, n, E)
            cases.append(Case(d, [("Q", 0, c, L - 1), ("u", 0, c)], {"view": name, "regime": "million-constant", "model": False, "mode": "f64", "c": c}))
    run_impl(cases, mode="f64", profile="release")
    viols = []
    for cs in cases:
        name, c = cs.desc[0], cs.meta["c"]
        b = cs.obs[-1]
        w = want[name]
        exact = float(c) if w == "c" else (float(c) * cs.desc[1] if w == "nc" else float(w))
        scale_ = abs(exact) if w in ("c", "nc") else {"Rsi": 100.0, "Welford": float(c), "WRolling": float(c), "WelfordVar": float(c) ** 2, "Roc": 100.0}.get(name, 2.0)
        g = O.f64_of_bits(b.val) if b.kind == "S" else None
        if g is None or not math.isfinite(g) or abs(g - exact) > 1e-6 * scale_:
            viols.append(O.viol(prefix + "-million-" + name.lower(), "%s after %d updates with the constant %s reports %s (f64); the exact answer on a constant stream is %s (tolerance 1e-6 x %g)"
                                % (d_sexpr(cs.desc), L, c, g if g is not None else b.kind, exact, scale_), [cs], desc=d_sexpr(cs.desc)))
    return cases, viols

def huge_window_long(rng, tier, prefix):
    """f64: a window beyond 2^16 fed 3 x 2^16 .. 4 x 2^16 values (walk generated inside the executor, regenerated here), answers at the last
    positions against the definition evaluated at binary64 over the last N values.  Two stream lengths 2^16 apart."""
    import statistics
    cases = []
    for name in ("Sma", "Cumulative", "Min", "Max", "WelfordMean", "Welford", "Roc", "Hln"):
        n = 65537 + rng.below(9000)
        seed = rng.below(2 ** 40) + 1
        base = 2 ** 17 + n + rng.below(2 ** 15)
        for extra in (0, 2 ** 16):
            Lm = base + extra
            tail = [F(c, 10) for c in lcg_walk(6, rng.below(2 ** 40) + 1)]
            cases.append(Case((name, n, E), [("W", 0, seed, Lm)] + [("v", 0, x) for x in tail], {"view": name, "regime": "huge-window-long", "model": False, "mode": "f64", "Lm": Lm, "seed": seed}))
    run_impl(cases, mode="f64", profile="release")
    viols = []
    walks = {}
    for c in cases:
        name, n = c.desc[0], c.desc[1]
        key = (c.meta["seed"], c.meta["Lm"])
        if key not in walks:
            walks[key] = [v / 10.0 for v in lcg_walk(c.meta["Lm"], c.meta["seed"])]
        xs = walks[key] + [float(x) for x in c.inputs()]
        for j in range(1, 7):
            hist = xs[:len(xs) - 6 + j]
            w = hist[-n:]
            if name == "Sma":
                e = math.fsum(w) / n
            elif name == "Cumulative":
                e = math.fsum(w)
            elif name == "Min":
                e = min(w)
            elif name == "Max":
                e = max(w)
            elif name == "WelfordMean":
                e = math.fsum(w) / n
            elif name == "Welford":
                m_ = math.fsum(w) / n
                e = math.sqrt(math.fsum((v - m_) ** 2 for v in w) / (n - 1))
            elif name == "Roc":
                b_ = hist[-n - 1]
                e = 100.0 * (hist[-1] - b_) / b_
            else:
                lo, hi = min(w), max(w)
                e = 0.0 if hi == lo else 2.0 * (hist[-1] - lo) / (hi - lo) - 1.0
            b = c.obs[j]
            g = O.f64_of_bits(b.val) if b.kind == "S" else None
            sc = max(1.0, abs(e)) if name not in ("Sma", "Min", "Max", "WelfordMean", "Welford") else 400.0
            if g is None or not math.isfinite(g) or abs(g - e) > 1e-6 * sc:
                viols.append(O.viol(prefix + "-hugewindow-" + name.lower(), "%s after %d updates reports %s (f64), the definition over the last %d values gives %s"
                                    % (d_sexpr(c.desc), len(hist), g if g is not None else b.kind, n, e), [], desc=d_sexpr(c.desc),
                                    stream={"generator": "W-walk (tenth units)", "seed": c.meta["seed"], "length": c.meta["Lm"], "then": [str(x) for x in c.inputs()]}))
                break
    return cases, viols

# ---------------------------------------------------------------------------------- C02
C02_VIEWS = ["Sma", "Cumulative", "Min", "Max", "Welford", "WelfordMean", "WelfordVar", "Hln", "Roc", "Entropy", "Vst", "Vsct"]
def run_C02(rng, tier):
    k = scale(tier)
    cases = standalone_cases(rng, C02_VIEWS, 130 * k)
    # deterministic corner cases: zero bases for Roc, flat windows, spike leaving the window
    for n in (1, 2, 3):
        cases.append(Case.simple(("Roc", n, E), [0, 0, 1, 2, 0, 3, 0, 0, 5, 6, 7, 8], {"regime": "zero-base", "view": "Roc"}))
        for v in ("Welford", "Vst", "Vsct", "Hln", "WelfordVar", "WelfordMean"):
            cases.append(Case.simple((v, n, E), [1, 1000, 3, 3, 3, 3, 3, -2, -2, -2, -2], {"regime": "spike-then-flat", "view": v}))
    run_impl(cases)
    viols = O.spec_check("C02", cases, "the definition over the last N values")
    dg, dv = dense_vs_exact(rng, tier, [v for v in C02_VIEWS if v != "Entropy"], "c02-long", spec=("C02", "the definition over the last N values"))
    viols += dv
    # after MILLIONS of updates (2^22 + a few thousand; walk generated inside the executor and regenerated here) the answers must still be the
    # definition over the last N values: a periodic rebuild / re-base / counter wrap leaks or double-counts a value only there
    mcases = []
    for name in [v for v in C02_VIEWS if v != "Entropy"]:
        n = rng.choice([2, 3, 5, 8])
        Lm = 2 ** 22 + 2500 + rng.below(3000)
        if tier != "quick":
            Lm = 2 ** 24 + 2500 + rng.below(3000)
        tail = [F(c_, 10) for c_ in lcg_walk(8, rng.below(2 ** 40) + 1)]
        mcases.append(Case((name, n, E), [("W", 0, rng.below(2 ** 40) + 1, Lm)] + [("v", 0, x) for x in tail], {"view": name, "regime": "million-prefix", "model": False, "mode": "f64", "Lm": Lm}))
    run_impl(mcases, mode="f64", profile="release")
    for c in mcases:
        name, n = c.desc[0], c.desc[1]
        walk = [v / 10.0 for v in lcg_walk(c.meta["Lm"], c.ops[0][2])][-(n + 4):]
        xs = walk + [float(x) for x in c.inputs()]
        exp = SP.at_float(O.spec_for(c.desc), xs)[len(walk):]
        for t, (e, b) in enumerate(zip(exp, c.obs[1:])):
            g = O.f64_of_bits(b.val) if b.kind == "S" else None
            tol = 1e-5 if name in ("Welford", "WelfordVar", "Vst", "Vsct") else 1e-6
            sc = max(1.0, abs(e)) if isinstance(e, float) else 1.0
            if name in ("Sma", "Min", "Max", "WelfordMean", "Welford"):
                sc = 400.0
            if name == "WelfordVar":
                sc = 160000.0
            if not (isinstance(e, float) and g is not None and math.isfinite(g) and abs(g - e) <= tol * sc):
                viols.append(O.viol("c02-million-" + name.lower(), "%s after %d updates reports %s (f64), the definition over the last %d values gives %s"
                                    % (d_sexpr(c.desc), c.meta["Lm"] + t + 1, g if g is not None else b.kind, n, e), [], desc=d_sexpr(c.desc),
                                    stream={"generator": "W-walk (tenth units)", "seed": c.ops[0][2], "length": c.meta["Lm"], "then": [str(x) for x in c.inputs()]}))
                break
    # units at the two ends of the binary64 range: small integers times 2^-1044 (subnormal numbers) and times 2^1000.  For the views below every
    # operation is exact or a single correctly rounded quotient at these scales, so the f64 output must equal the definition evaluated at binary64
    # to 1e-9 RELATIVE to the unit (a guard written with is_normal(), MIN_POSITIVE or an absolute epsilon shows only here)
    tcases = []
    for name in ("Roc", "Hln", "Min", "Max", "Sma", "Cumulative"):
        for n in (1, 2, 3, 5):
            for e2 in (-1044, 1000):
                xs = [F(rng.below(9) + 1) * F(2) ** e2 for _ in range(3 * n + 8)]
                import struct
                fx = [float(x) for x in xs]       # exact: small integers times a power of two; fed as raw bit patterns (a ratio with a 2^1044 denominator cannot be converted term by term)
                tcases.append(Case((name, n, E), [("v", 0, "x%016x" % struct.unpack("<Q", struct.pack("<d", v))[0]) for v in fx],
                                   {"view": name, "regime": "unit 2^%d" % e2, "model": False, "mode": "f64", "unit": e2, "fx": fx}))
    run_impl(tcases, mode="f64", profile="release")
    for c in tcases:
        f = O.spec_for(c.desc)
        exp = SP.at_float(f, c.meta["fx"])
        unit = 2.0 ** c.meta["unit"]
        for t, (e, b) in enumerate(zip(exp, c.obs)):
            if e == "skip":
                continue
            g = None if b.kind == "N" else (O.f64_of_bits(b.val) if b.kind == "S" else b.kind)
            sc = max(abs(e), unit) if isinstance(e, float) else unit
            if c.desc[0] in ("Roc", "Hln"):
                sc = max(abs(e), 1.0) if isinstance(e, float) else 1.0
            ok = (e is None and g is None) or (isinstance(e, float) and isinstance(g, float) and abs(e - g) <= 1e-9 * sc)
            if not ok:
                viols.append(O.viol("c02-unit-" + c.desc[0].lower(), "%s on small integers times 2^%d: update %d reports %s (f64), the definition evaluated at binary64 gives %s"
                                    % (d_sexpr(c.desc), c.meta["unit"], t + 1, g, e), [c], step=t + 1))
                break
    return finish("C02", "C02", cases, viols, "stand-alone windowed statistic, N in 1..12 weighted to 1,2 (and 20..40, 64, 97, 101, 128); batch definition over exactly the last N values evaluated with exact rationals; non-trivial = at least 3 distinct observations; f64 against the exact scalar at every step of long streams and with windows beyond 2^8 (2^16 in the thorough tier)",
                  {"dense_f64_vs_exact_runs": len(dg), "dense_steps": sum(len(g[1].ops) for g in dg)})

# ---------------------------------------------------------------------------------- C03
C03_K = {"Sma": 0, "Cumulative": 0, "Min": 0, "Max": 0, "Welford": 0, "WelfordMean": 0, "WelfordVar": 0, "Vst": 0, "Vsct": 0, "Hln": 0, "Entropy": 0,
         "Cog": 0, "Cti": 0, "Net": 0, "Roc": 1, "Rsi": 1, "MyRsi": 1, "Alma": "2n", "Pfe": "pfe"}
def run_C03(rng, tier):
    k = scale(tier)
    pairs, cases = [], []
    names = list(C03_K)
    for i in range(150 * k):
        name = names[i % len(names)]
        if name == "Pfe":
            n, m = 3 + rng.below(4), 1 + rng.below(3)
            d = ("Pfe", n, E, ("Sma", m, E))
            K = n + m - 1
        else:
            d = mk_view(rng, name)
            n = d[1]
            K = 2 * n if C03_K[name] == "2n" else n + C03_K[name]
        if name not in ("Pfe", "MyRsi", "Roc") and i % 4 == 3:      # (the hold exceptions of MyRSI / Roc are decided on raw inputs: stand-alone only)
            m_ = 2 + rng.below(3)
            d = d[:-1] + (("Sma", m_, E),)          # W over Sma(m): memory K_W + m - 1
            K = K + m_ - 1
        sl = K + rng.below(5)
        heavy = is_heavy(d)
        _, s = gen_stream(rng, sl, grid=1 if heavy else 4)
        def prefix():
            L = rng.choice([0, 0, 1, 2, K, 2 * K + 1]) if not heavy else rng.choice([0, 1, 2])
            r, p = gen_stream(rng, L, grid=1 if heavy else 4)
            if rng.chance(0.3):
                p = [x * 100000 for x in p]
            return p
        p1, p2 = prefix(), prefix()
        if p1 == p2:
            p2 = p2 + [F(777)]
        c1 = Case.simple(d, p1 + s, {"view": name, "regime": "prefix-suffix"})
        c2 = Case.simple(d, p2 + s, {"view": name, "regime": "prefix-suffix"})
        pairs.append((c1, c2, K, sl, None))
        cases += [c1, c2]
    # degenerate windows after different prefixes (deterministic): flat windows (max = min, zero variance, no change) and, for CoG, windows that sum to
    # zero -- the guarded branches (0/0, zero denominator) are where a view keeps or mis-initialises a history-dependent output
    for name in names:
        if name == "Pfe":
            continue
        for n in (2, 3, 4):
            d = mk_view(rng, name, n=n)
            if is_heavy(d):
                continue
            K = 2 * n if C03_K[name] == "2n" else n + C03_K[name]
            sufs = [[F(5)] * (K + 1) + [F(2)] * (K + 2) + [F(3), F(2)] + [F(2)] * (K + 1)]
            if name == "Cog":
                sufs.append({2: [2, -2, 5, -5, 1, 3, -3, 4], 3: [1, 2, -3, 4, -1, -3, 2, 1, -3], 4: [1, 2, 3, -6, 1, 2, 3, -6, 5]}[n])
                sufs = [[F(x) for x in s_] for s_ in sufs]
            for s_ in sufs:
                p1, p2 = [F(7), F(1), F(-3)], [F(-4), F(9), F(2), F(11), F(6)]
                c1 = Case.simple(d, p1 + s_, {"view": name, "regime": "degenerate-suffix"})
                c2 = Case.simple(d, p2 + s_, {"view": name, "regime": "degenerate-suffix"})
                pairs.append((c1, c2, K, len(s_), None))
                cases += [c1, c2]
    # arbitrarily LONG prefixes: one history has seen more than 2^12 (thorough: 2^16) values before the common suffix, the other almost none;
    # anything that is rebuilt, re-based or re-summed every so many updates / evictions leaks an old value only there
    lpairs = []
    for name in names:
        if name not in LARGE_OK or name == "Pfe":
            continue
        for rep in range(1 if tier == "quick" else 2):
            d = mk_view(rng, name, n=rng.choice([1, 2, 3, 5, 8]))
            n = d[1]
            K = 2 * n if C03_K[name] == "2n" else n + C03_K[name]
            sl = K + 2 + rng.below(4)
            L1 = 4100 + rng.below(300) if (tier == "quick" or name not in O1_VIEWS or rep == 0) else 66000 + rng.below(3000)
            walk = bounded_walk(rng, L1 + sl + 3, grid=4)
            s_ = walk[L1 + 3:]
            p1, p2 = walk[:L1], walk[L1:L1 + rng.below(3)]
            meta = {"view": name, "regime": "long-prefix", "model": False}
            c1 = Case(d, [("q", 0, x) for x in p1] + [("u", 0, x) for x in s_], dict(meta))
            c2 = Case(d, [("q", 0, x) for x in p2] + [("u", 0, x) for x in s_], dict(meta))
            lpairs.append((c1, c2, K, sl, None))
    # prefixes of MILLIONS of values (f64; the walk is generated inside the executor): a view that has seen 2^24 values and a fresh one must
    # agree on a common suffix -- a rebuild / re-base / counter wrap every 2^22 or 2^24 updates or evictions leaks an old value only there
    mpairs = []
    for name in names:
        if name not in LARGE_OK or name == "Pfe":
            continue
        d = mk_view(rng, name, n=rng.choice([2, 3, 5, 8]))
        n = d[1]
        K = 2 * n if C03_K[name] == "2n" else n + C03_K[name]
        Lm = (2 ** 24 if name in O1_VIEWS or name in ("Min", "Max", "Hln", "Rsi", "MyRsi", "Entropy") else 2 ** 22) + 3000 + rng.below(2000)
        if tier != "quick":
            Lm *= 2
        s_ = [F(c, 10) for c in lcg_walk(K + 12, rng.below(2 ** 40) + 1)]
        meta = {"view": name, "regime": "million-prefix", "model": False, "mode": "f64"}
        c1 = Case(d, [("W", 0, rng.below(2 ** 40) + 1, Lm)] + [("v", 0, x) for x in s_], dict(meta))
        c2 = Case(d, [("v", 0, x) for x in s_], dict(meta))
        mpairs.append((c1, c2, K, Lm))
    # the same with a window beyond 2^16 and two prefix lengths 2^16 apart (a ring buffer of capacity 2^17 is wrapped at one of them, contiguous at the other)
    for name in names:
        if not (name in O1_VIEWS or name in ("Min", "Max", "Hln", "Entropy")) or name not in LARGE_OK:
            continue
        n = 65537 + rng.below(9000)
        d = (name, n, E)
        K = n + C03_K[name]
        s_ = [F(c, 10) for c in lcg_walk(K + 12, rng.below(2 ** 40) + 1)]
        meta = {"view": name, "regime": "million-prefix/huge-window", "model": False, "mode": "f64"}
        c2 = Case(d, [("v", 0, x) for x in s_], dict(meta))
        Lm = 2 ** 17 + rng.below(2 ** 16)
        sd = rng.below(2 ** 40) + 1
        for extra in (0, 2 ** 16):
            mpairs.append((Case(d, [("W", 0, sd, Lm + extra)] + [("v", 0, x) for x in s_], dict(meta)), c2, K, Lm + extra))
    run_impl(cases)
    run_impl([c for pr in lpairs for c in pr[:2]], profile="release")
    uniq = []
    for pr in mpairs:
        for c in pr[:2]:
            if not any(c is u for u in uniq):
                uniq.append(c)
    run_impl(uniq, mode="f64", profile="release")
    viols = O.c03(pairs) + O.c03(lpairs)
    for (c1, c2, K, Lm) in mpairs:
        o1, o2 = [b for b in c1.obs[1:]], list(c2.obs)
        name = c1.desc[0]
        tol = 0.0 if name in ("Min", "Max", "Hln", "Entropy", "Cog", "Cti", "Net", "Rsi", "MyRsi", "Roc") else (1e-5 if name in ("Welford", "WelfordVar", "WelfordMean", "Vst", "Vsct") else 1e-9)
        for i in range(K, len(o2)):
            a, b = o1[i], o2[i]
            if a.kind == "S" and b.kind == "S":
                x, y = O.f64_of_bits(a.val), O.f64_of_bits(b.val)
                ok = (a.val == b.val) or (math.isfinite(x) and math.isfinite(y) and abs(x - y) <= tol * max(1.0, abs(x), abs(y), 400.0 if tol else 1.0))
            else:
                ok = a.kind == b.kind
            if not ok:
                viols.append(O.viol("c03-memory-" + name.lower(), "%s: after %d earlier updates the output on a common suffix is %s, a fresh instance fed only the suffix reports %s (position %d of the suffix, K=%d) [f64]"
                                    % (d_sexpr(c1.desc), Lm, O.f64_of_bits(a.val) if a.kind == "S" else a.kind, O.f64_of_bits(b.val) if b.kind == "S" else b.kind, i + 1, K), [c1, c2] if len(c1.ops) < 2000 else [], K=K,
                                    stream={"prefix": "W-walk (harness, tenth units)", "seed": c1.ops[0][2], "prefix_len": Lm, "suffix": "props.lcg_walk tenth units"}))
                break
    return finish("C03", "C03", cases, viols, "pairs of histories with arbitrary (empty, short, long, huge-valued) different prefixes and a common suffix of length K..K+4; outputs on the suffix from position K on must be equal (exact rationals); plus, per view, a pair whose prefixes have > 2^12 (thorough: 2^16) resp. < 3 values",
                  {"long_prefix_pairs": len(lpairs), "million_prefix_pairs": len(mpairs)})

# ---------------------------------------------------------------------------------- C04
def run_C04(rng, tier):
    k = scale(tier)
    names = ["Sma", "Ema", "Alma"]
    singles = standalone_cases(rng, names, 45 * k)
    for i in range(12 * k):
        d = mk_view(rng, ["EmaAlpha", "AlmaCustom"][i % 2], n=pick_n(rng, 1, 6))
        reg, xs = stream_for(rng, d, 16)
        singles.append(Case.simple(d, xs, {"regime": reg, "view": d[0]}))
    for n in (1, 2, 3):
        singles.append(Case.simple(("EmaAlpha", n, F(1), E), [10, 0, 4, -2, 7], {"regime": "alpha-1", "view": "EmaAlpha"}))
        singles.append(Case.simple(("Ema", n, E), [0, 0, 0, 8, -8, 0, 4], {"regime": "zeros", "view": "Ema"}))
        singles.append(Case.simple(("Ema", n, E), [2, -2, 4, 0, 0, 1], {"regime": "zeros", "view": "Ema"}))
        singles.append(Case.simple(("Sma", n, E), [0, 2, -2, 0, 0, 5], {"regime": "zeros", "view": "Sma"}))
    mono, aff = [], []
    for i in range(30 * k):
        d = mk_view(rng, names[i % 3])
        reg, xs = stream_for(rng, d, 14 + rng.below(10))
        j = rng.below(len(xs))
        ys = list(xs)
        ys[j] += F(1 + rng.below(20), 4)
        mono.append((Case.simple(d, xs, {"view": d[0], "regime": reg}), Case.simple(d, ys, {"view": d[0], "regime": "raised"}), j))
        a, b = F(1 + rng.below(12), 4), F(rng.below(41) - 20, 4)
        aff.append((Case.simple(d, xs, {"view": d[0], "regime": reg}), Case.simple(d, [a * x + b for x in xs], {"view": d[0], "regime": "affine"}), (a, b)))
    cases = singles + [c for p in mono for c in p[:2]] + [c for p in aff for c in p[:2]]
    run_impl(cases)
    viols = O.c04_single([c for c in singles if c.desc[0] in ("Sma", "Ema", "Alma")] + [p[0] for p in mono])
    viols += O.spec_check("C04", [c for c in singles if c.desc[0] in ("Ema", "Alma", "EmaAlpha", "AlmaCustom")], "the defining recursion / Gaussian-kernel weighted mean")
    viols += O.pointwise_rel("c04-monotone", "raising an input lowered an output", mono, lambda a, b, prm, t, c: b >= a)
    viols += O.pointwise_rel("c04-affine", "does not commute with x -> a*x+b", aff, lambda a, b, prm, t, c: b == prm[0] * a + prm[1])
    dg, dv = dense_vs_exact(rng, tier, ["Sma", "Ema", "Alma"], "c04-long", spec=("C04", "the defining recursion / window mean / Gaussian-kernel weighted mean"))
    viols += dv
    return finish("C04", "C04", cases, viols, "Sma/Ema/Alma: hull and constant reproduction on single runs (incl. zeros and sign changes), paired runs for monotonicity (one input raised) and x -> a*x+b with rational a>0, b; Ema recursion and Alma kernel as batch specs; exact rationals")

# ---------------------------------------------------------------------------------- C05
def run_C05(rng, tier):
    k = scale(tier)
    cases = standalone_cases(rng, ["Rsi", "MyRsi"], 90 * k)
    neg = []
    for i in range(20 * k):
        d = mk_view(rng, ["Rsi", "MyRsi"][i % 2])
        reg, xs = stream_for(rng, d, 20)
        neg.append((Case.simple(d, xs, {"view": d[0], "regime": reg}), Case.simple(d, [-x for x in xs], {"view": d[0], "regime": "negated"}), None))
    for n in (1, 2, 3, 4):
        for v in ("Rsi", "MyRsi"):
            cases.append(Case.simple((v, n, E), [1, 2, 3, 4, 5, 6, 7, 7, 7, 7, 7, 7, 6, 5, 4, 3, 2, 1], {"regime": "rise-flat-fall", "view": v}))
            cases.append(Case.simple((v, n, E), [1, 1000, 1, 1, 1, 1, 1, 1, 2], {"regime": "spike-then-flat", "view": v}))
    cases += [c for p in neg for c in p[:2]]
    run_impl(cases)
    viols = O.spec_check("C05", cases, "gains/losses over the N most recent changes")
    def negrel(a, b, prm, t, c):
        n = c.desc[1]
        xs = c.inputs()
        w = xs[max(0, t - n): t + 1]
        if len(set(w)) == 1:
            return None
        return b == (100 - a if c.desc[0] == "Rsi" else -a)
    viols += O.pointwise_rel("c05-negation", "negating the input must map Rsi to 100-Rsi / MyRSI to -MyRSI", neg, negrel)
    dg, dv = dense_vs_exact(rng, tier, ["Rsi", "MyRsi"], "c05-long", spec=("C05", "gains/losses over the N most recent changes"))
    viols += dv
    # a giant value entering and leaving the window (f64 against the exact scalar at every step): while it is inside, G/L is beyond 2^53 and
    # the reading ROUNDS to exactly 100 / 0 / +-1 although the window is not one-sided; anything keyed on the rounded reading goes wrong after it left
    sg = []
    for v in ("Rsi", "MyRsi"):
        for n in (2, 3, 5, 8):
            for rep in range(2 * k):
                xs = [F(rng.below(90) + 10, 10) for _ in range(4 * n + 12)]
                xs[n + rng.below(n + 2)] = rng.choice([F(10) ** 17, -F(10) ** 30, F(10) ** 30, -F(10) ** 17])
                if rep % 2:
                    base = xs[-1]
                    xs += [base + F(i + 1, 2) for i in range(n + 3)]         # then a rising run: the reading stays where a stale 100 would pin it
                meta = {"view": v, "regime": "giant-spike", "model": False}
                sg.append(("long", Case.simple((v, n, E), xs, dict(meta, mode="f64")), Case.simple((v, n, E), xs, dict(meta, mode="ex")), None))
    run_impl([g[1] for g in sg], mode="f64", profile="release")
    run_impl([g[2] for g in sg], mode="ex", profile="release")
    viols += O.c16(sg, prefix="c05-spike")
    return finish("C05", "C05", cases, viols, "Rsi / MyRSI stand-alone, N in 1..12, all regimes incl. ties, monotone runs, spikes leaving the window, flat after volatile; closed form from G and L; negation pairs; f64 against the exact scalar with a value of 1e17 / 1e30 entering and leaving the window",
                  {"f64_vs_exact_runs": len(sg)})

# ---------------------------------------------------------------------------------- C06
def run_C06(rng, tier):
    k = scale(tier)
    cases = []
    for i in range(100 * k):
        name = ["Cti", "Net", "Cog"][i % 3]
        d = (name, 3 + rng.below(8), E)
        reg, xs = stream_for(rng, d)
        cases.append(Case.simple(d, xs, {"regime": reg, "view": name}))
    mono = []
    for n in (3, 4, 5, 7):
        up = [F(1), F(2), F(4), F(8), F(9), F(15), F(16), F(30), F(31), F(33)]
        aff = [F(3) + F(5, 4) * i for i in range(12)]
        for name in ("Cti", "Net"):
            mono.append((Case.simple((name, n, E), up, {"regime": "strictly-increasing", "view": name}), +1))
            mono.append((Case.simple((name, n, E), [-x for x in up], {"regime": "strictly-decreasing", "view": name}), -1))
            mono.append((Case.simple((name, n, E), aff, {"regime": "affine-up", "view": name}), +1))
            mono.append((Case.simple((name, n, E), [-x for x in aff], {"regime": "affine-down", "view": name}), -1))
        cases.append(Case.simple(("Cog", n, E), [F(5, 2)] * 10, {"regime": "const", "view": "Cog"}))
    negs = []
    for i in range(20 * k):
        name = ["Cti", "Net"][i % 2]
        d = (name, 3 + rng.below(6), E)
        reg, xs = stream_for(rng, d, 18)
        negs.append((Case.simple(d, xs, {"view": name, "regime": reg}), Case.simple(d, [-x for x in xs], {"view": name, "regime": "negated"}), None))
    order = []
    for i in range(10 * k):
        d = ("Net", 3 + rng.below(6), E)
        reg, xs = stream_for(rng, d, 18)
        order.append((Case.simple(d, xs, {"view": "Net", "regime": reg}), Case.simple(d, [x * x * x + 2 * x for x in xs], {"view": "Net", "regime": "monotone-map"}), None))
    cases += [m[0] for m in mono] + [c for p in negs for c in p[:2]] + [c for p in order for c in p[:2]]
    run_impl(cases)
    viols = O.spec_check("C06", cases, "the correlation definition on the window")
    for (c, sign) in mono:
        n = c.desc[1]
        for t, g in enumerate(c.outs()):
            if t + 1 >= n and g != sign:
                key = "W1-cti-monotone-nonaffine" if (c.desc[0] == "Cti" and c.meta["regime"].startswith("strictly")) else "c06-monotone-" + c.desc[0].lower()
                viols.append(O.viol(key, "%s on a %s window reports %s, not %+d (step %d)" % (d_sexpr(c.desc), c.meta["regime"], approx_s(g), sign, t + 1), [c], step=t + 1))
                break
    full = lambda c, t: t + 1 >= c.desc[1]
    viols += O.pointwise_rel("c06-negation", "negating the input must flip the sign", negs, lambda a, b, prm, t, c: (b == -a) if full(c, t) else None)
    viols += O.pointwise_rel("c06-net-order", "NET must depend on the order of the values only", order, lambda a, b, prm, t, c: b == a)
    for c in cases:
        if c.desc[0] == "Cog" and c.meta.get("regime") == "const":
            if any(g != 0 for g in c.outs()):
                viols.append(O.viol("c06-cog-const", "CoG on a constant non-zero window is not 0: %s" % d_sexpr(c.desc), [c]))
    # windows beyond 2^8 / 2^9 on strictly monotone streams (f64): the extreme value must still be reported
    big = []
    for n in ([257 + rng.below(70)] + ([513 + rng.below(100)] if tier != "quick" else [])):
        for name in ("Net", "Cti"):
            for sgn in (1, -1):
                xs = [sgn * (F(3) + F(5, 4) * i) for i in range(n + 6)]
                big.append((Case(("Net" if name == "Net" else "Cti", n, E), [("q", 0, x) for x in xs[:n - 1]] + [("v", 0, x) for x in xs[n - 1:]],
                                 {"view": name, "regime": "huge-window-affine", "model": False, "mode": "f64"}), sgn))
    run_impl([b[0] for b in big], mode="f64", profile="release")
    for (c, sgn) in big:
        for i, b in enumerate(c.obs):
            if b.kind == "-":
                continue
            x = O.f64_of_bits(b.val) if b.kind == "S" else None
            if x is None or abs(x - sgn) > 1e-9:
                viols.append(O.viol("c06-monotone-huge-" + c.desc[0].lower(), "%s on an affine %s window of %d values reports %s, not %+d (f64, update %d)"
                                    % (d_sexpr(c.desc), "rising" if sgn > 0 else "falling", c.desc[1], x if x is not None else b.kind, sgn, i + 1), [], desc=d_sexpr(c.desc)))
                break
    dg, dv = dense_vs_exact(rng, tier, ["Net", "Cti", "Cog"], "c06-long", spec=("C06", "the correlation definition on the window"))
    viols += dv
    # a giant value enters and LEAVES the window: from then on the window holds ordinary values only and the f64 answer must be the exact one again
    # (a view that keeps running sums instead of recomputing has absorbed the small values while the giant was inside)
    sg = []
    for v in ("Cti", "Net", "Cog"):
        for n in (3, 4, 7):
            for rep in range(2 * k):
                pre = [F(rng.below(90) + 10, 4) for _ in range(n + 2)] + [rng.choice([F(10) ** 9, F(10) ** 17, -F(10) ** 12])] + [F(rng.below(90) + 10, 4) for _ in range(n)]
                post = [F(i, 4) + F(rng.below(3), 8) for i in range(1, n + 6)] if rep % 2 else [F(rng.below(90) + 10, 4) for _ in range(n + 5)]
                if v == "Cog":
                    pre = [abs(x) for x in pre]
                ops = [("q", 0, x) for x in pre] + [("v", 0, x) for x in post]
                meta = {"view": v, "regime": "giant-spike-left", "model": False}
                sg.append(("long", Case((v, n, E), ops, dict(meta, mode="f64")), Case((v, n, E), ops, dict(meta, mode="ex")), None))
    run_impl([g[1] for g in sg], mode="f64", profile="release")
    run_impl([g[2] for g in sg], mode="ex", profile="release")
    viols += O.c16(sg, prefix="c06-spike")
    return finish("C06", "C06", cases, viols, "CTI/NET/CoG, N in 3..10: batch Pearson / Kendall / CoG formula on full windows; strictly monotone and affine windows; negation pairs; strictly increasing map for NET")

def approx_s(g):
    return "%s (~%.6g)" % (g, float(g)) if isinstance(g, F) else str(g)

# ---------------------------------------------------------------------------------- C07
LN199 = None
def range_of(d):
    """(lo, hi, strict_hi) exact-rational bounds for the view's documented range, tolerance for surrogate rounding"""
    name = d[0]
    n = d[1] if len(d) > 1 and isinstance(d[1], int) else None
    one = F(1)
    if name == "Rsi":
        return (F(0), F(100))
    if name in ("MyRsi", "Hln", "Cti", "Net", "Tanh", "Pfe"):
        return (-one, one)
    if name in ("Lrsi", "Entropy"):
        return (F(0), one)
    if name == "Eft":
        return (-O.SG.sln(F(199)) - F(1, 10 ** 6), O.SG.sln(F(199)) + F(1, 10 ** 6))
    if name in ("Welford", "WRolling"):
        return (F(0), None)
    if name == "Drawdown":
        return (F(0), one)
    return None

def run_C07(rng, tier):
    k = scale(tier)
    names = ["Rsi", "MyRsi", "Hln", "Cti", "Net", "Lrsi", "Entropy", "Welford", "Vsct", "Cog", "Min", "Max", "Sma", "Alma"]
    cases = []
    for i in range(150 * k):
        name = names[i % len(names)]
        d = mk_view(rng, name, n=pick_n(rng, max(2, WINDOWED[name])))
        reg, xs = stream_for(rng, d, regime=rng.choice(["iid", "walk", "monotone", "ties", "const_stretch", "spike", "volatile_flat", "const", "signs"]))
        if name == "Cog":
            reg, xs = gen_stream(rng, len(xs), positive=True)
        cases.append(Case.simple(d, xs, {"regime": reg, "view": name}))
    for i in range(12 * k):
        reg, xs = gen_stream(rng, 24, positive=True)
        cases.append(Case.simple(("Drawdown", E), xs, {"regime": reg, "view": "Drawdown"}))
        reg, xs = gen_stream(rng, 24)
        cases.append(Case.simple(("WRolling", E), xs, {"regime": reg, "view": "WRolling"}))
        cases.append(Case.simple(("Tanh", rng.choice([E, ("Roc", 2, E), ("Cumulative", 3, E)])), xs, {"regime": reg, "view": "Tanh"}))
        c = F(rng.below(17) - 8, 2)
        cases.append(Case.simple(("Gte", c, E), xs, {"regime": reg, "view": "Gte"}))
        cases.append(Case.simple(("Lte", c, E), xs, {"regime": reg, "view": "Lte"}))
    for i in range(10 * k):
        d = mk_view(rng, "Eft")
        reg, xs = stream_for(rng, d, 24)
        cases.append(Case.simple(d, xs, {"regime": reg, "view": "Eft"}))
        d = ("Pfe", 3 + rng.below(6), E, rng.choice(MAS))
        reg, xs = stream_for(rng, d)
        cases.append(Case.simple(d, xs, {"regime": reg, "view": "Pfe"}))
    # the recorded PFE witness (W4 = D13): constant input
    cases.append(Case.simple(("Pfe", 16, E, ("Ema", 1, E)), [F(1)] * 18, {"regime": "const", "view": "Pfe"}))
    run_impl(cases)
    viols = O.c07(cases)
    # f64: the same bounds up to a few ulps of the bound
    fcases = []
    for c in cases[::2] + [c_ for c_ in cases[1::2] if c_.desc[0] in ("Eft", "Pfe", "Tanh", "Drawdown")]:
        fcases.append(Case(c.desc, c.ops, dict(c.meta, model=False, mode="f64")))
    for n in (2, 3, 5, 13):
        for v in ("Rsi", "MyRsi", "Hln", "Cti", "Net", "Vsct", "Welford"):
            for rep in range(2 * k):
                pre = [F(rng.below(4000000) - 2000000, 1000) for _ in range(10 + rng.below(20))]
                flat = [F(rng.below(1000), 10)] * (n + 3)
                fcases.append(Case.simple((v, n, E), pre + flat + [flat[0] + F(1, 7)], {"regime": "volatile_flat_f64", "view": v, "model": False, "mode": "f64"}))
    # windows only a few ulps wide (all values exactly representable): the bounds must still hold to a few ulps
    for v in ("Hln", "Net", "Min", "Max", "Entropy", "Cog"):
        for n in (2, 3, 5):
            for rep in range(2 * k):
                base = rng.choice([F(1), F(1000), F(3, 4)])
                ulp = base / 2 ** 52 if base != F(3, 4) else F(1, 2 ** 53)
                xs = [base + ulp * rng.below(6) for _ in range(16)]
                fcases.append(Case.simple((v, n, E), xs, {"regime": "ulp-wide-window", "view": v, "model": False, "mode": "f64"}))
    # "any dynamic range": ordinary positive values with one value 1e17 times larger entering and leaving the window; a view that keeps
    # a running sum instead of recomputing absorbs the small values while the giant is inside and is left with garbage when it goes
    for v in ("Cog", "Hln", "Cti", "Net", "Rsi", "MyRsi", "Entropy", "Min", "Max", "Drawdown", "Lrsi", "Tanh"):
        for rep in range(2 * k):
            n = rng.choice([3, 4, 7])
            xs = [F(rng.below(90) + 10, 10) for _ in range(28)]
            xs[6 + rng.below(8)] = F(10 ** 17) * rng.choice([1, 3])
            d = (v, E) if v in ("Drawdown", "Tanh") else (v, n, E)
            fcases.append(Case.simple(d, xs, {"regime": "giant-spike", "view": v, "model": False, "mode": "f64"}))
    # every window length up to 130 for the windowed bounded views (f64, short streams with ties)
    for v in ("Rsi", "MyRsi", "Hln", "Cti", "Net", "Entropy", "Min", "Max", "Cog", "Lrsi"):
        for n in range(2, 131):
            if v in ("Cti", "Net") and n > 40 and n not in (63, 64, 65, 100, 127, 128, 129):
                continue
            _, xs = gen_stream(rng, (2 * n + 10) if n <= 40 else (n + 10), positive=(v == "Cog"), grid=rng.choice([1, 4]))
            fcases.append(Case(( v, n, E), [("v", 0, x) for x in xs], {"regime": "every-n", "view": v, "model": False, "mode": "f64"}))
    # "every finite input": small integers times 2^1018 (raw bit patterns) -- every window sum of the recomputing views is still finite, so the
    # answers are; an intermediate such as 100 * gain formed before the division overflows only here
    import struct
    for v in ("Rsi", "Hln", "Net", "Min", "Max", "Entropy", "Drawdown", "Tanh"):
        for n in (2, 4, 7):
            fx = [float(rng.below(9) + 1) * 2.0 ** 1018 for _ in range(3 * n + 8)]
            d = (v, E) if v in ("Drawdown", "Tanh") else (v, n, E)
            fcases.append(Case(d, [("v", 0, "x%016x" % struct.unpack("<Q", struct.pack("<d", x_))[0]) for x_ in fx], {"regime": "unit 2^1018", "view": v, "model": False, "mode": "f64"}))
    # after tens of thousands of updates: a quiet window with one outlier puts Vsct exactly AT its bound (N-1)/sqrt(N); statistics that have
    # silently come to cover N+1 samples (a periodic rebuild at the wrong point) exceed it there
    for n in (2, 3, 5, 16):
        for Lw in (2 ** 14 + 7, 2 ** 15 + 300 + rng.below(500), 2 ** 16 + 11):
            cq = F(100 + rng.below(50))
            suffix = [cq] * (n + 3) + [cq * F(8, 5)] + [cq] * 2 + [cq * F(1, 2)] + [cq] * (n + 2)
            fcases.append(Case(("Vsct", n, E), [("W", 0, rng.below(2 ** 40) + 1, Lw)] + [("v", 0, x) for x in suffix], {"regime": "long-then-outlier", "view": "Vsct", "model": False, "mode": "f64"}))
    run_impl(fcases, mode="f64")
    viols += O.c07(fcases, f64=True)
    return finish("C07", "C07", cases, viols, "every bounded view, N>=2, all regimes incl. constant stretches after volatile ones, spikes, monotone runs; exact-rational bound check at every step, and an f64 repeat with a tolerance of 4 ulps of the bound",
                  {"f64_cases": len(fcases)})

# ---------------------------------------------------------------------------------- C08
WARMUP = {"Sma": lambda n: n, "Ema": lambda n: n, "Ss": lambda n: n, "Rsi": lambda n: n, "MyRsi": lambda n: n,
          "Min": lambda n: 1, "Max": lambda n: 1, "Cumulative": lambda n: 1, "Alma": lambda n: 1, "Cog": lambda n: 1, "Entropy": lambda n: 1}
def run_C08(rng, tier):
    k = scale(tier)
    cases = standalone_cases(rng, ALL_UNARY, 2 * len(ALL_UNARY) * k)
    for i in range(40 * k):
        name = ALL_UNARY[rng.below(len(ALL_UNARY))]
        pos = name in POSITIVE_ONLY
        inner = rng.choice(INNERS_POS if pos else INNERS)
        d = mk_view(rng, name, inner)
        reg, xs = stream_for(rng, d)
        if pos or inner[0] == "LnReturn":
            reg, xs = gen_stream(rng, len(xs), positive=True, grid=1 if is_heavy(d) else 4)
        cases.append(Case.simple(d, xs, {"regime": reg, "view": name, "chain": True}))
    # starved wrappers: the inner view never delivers
    for name in ALL_UNARY:
        d = mk_view(rng, name, ("Sma", 50, E))
        reg, xs = gen_stream(rng, 12, positive=True, grid=1 if is_heavy(d) else 4)
        cases.append(Case(d, [("l", 0)] + [("u", 0, x) for x in xs], {"regime": "starved", "view": name}))
        # every wrapper over an inner view that delivers from its 3rd value on; read before the first update as well
        d = mk_view(rng, name, ("Sma", 3, E))
        reg, xs = gen_stream(rng, 12, positive=True, grid=1 if is_heavy(d) else 4)
        cases.append(Case(d, [("l", 0)] + [("u", 0, x) for x in xs], {"regime": reg, "view": name, "chain": True}))
        d = mk_view(rng, name)
        reg, xs = gen_stream(rng, 8, positive=True, grid=1 if is_heavy(d) else 4)
        cases.append(Case(d, [("l", 0), ("l", 0)] + [("u", 0, x) for x in xs], {"regime": "read-before-first-update", "view": name}))
    run_impl(cases)
    viols = O.c08(cases, WARMUP)
    # long f64 runs: readiness never reverts, values stay finite
    fcases = []
    for i in range(60 * k):
        name = ALL_UNARY[i % len(ALL_UNARY)]
        d = mk_view(rng, name, n=None)
        L = 400
        reg, xs = gen_stream(rng, L, positive=name in POSITIVE_ONLY, grid=8)
        fcases.append(Case.simple(d, xs, {"regime": reg, "view": name, "model": False, "mode": "f64"}))
    run_impl(fcases, mode="f64")
    viols += O.c08(fcases, {}, f64=True)
    return finish("C08", "C08", cases, viols, "every view stand-alone and in two-level chains, N from its minimum, in-domain inputs: None-prefix then values for ever, first value at the documented index, no error; starved wrappers; 400-step f64 runs for finiteness",
                  {"f64_cases": len(fcases)})

# ---------------------------------------------------------------------------------- C13
def run_C13(rng, tier):
    k = scale(tier)
    cases = []
    for i in range(60 * k):
        name = ["WRolling", "WRollingMean", "Drawdown", "LnReturn"][i % 4]
        reg, xs = gen_stream(rng, 20 + rng.below(30), positive=True, grid=rng.choice([1, 4, 10]))
        cases.append(Case.simple((name, E), xs, {"regime": reg, "view": name}))
    cases.append(Case.simple(("Drawdown", E), [10, 8, 12, 6, 12, 12, 3, 20, 19, 5, 40], {"regime": "new-peaks-after-drawdowns", "view": "Drawdown"}))
    run_impl(cases)
    viols = O.spec_check("C13", cases, "the batch definition over the whole history")
    mc, mv = million_constant(rng, tier, ["WRolling", "WRollingMean", "Drawdown", "LnReturn"], "c13")       # "streams of any length (millions of values)"
    viols += mv
    return finish("C13", "C13", cases, viols, "WelfordRolling mean()/last(), Drawdown, LnReturn on positive streams (new peaks after drawdowns, repeated peaks, monotone runs): batch definitions over the whole history, exact rationals; f64 on constant streams of 10^6 values against the closed-form answer",
                  {"long_f64_runs": len(mc)})

# ---------------------------------------------------------------------------------- C11
C11_VIEWS = ["Ss", "Roofing", "Laguerre", "Lrsi", "Cyber", "TrendFlex", "ReFlex", "Eft", "Pfe"]
def run_C11(rng, tier):
    k = scale(tier)
    cases = []
    for i in range(110 * k):
        name = C11_VIEWS[i % len(C11_VIEWS)]
        d = mk_view(rng, name, n=(6 + rng.below(4) if name == "Cyber" else None))
        reg, xs = stream_for(rng, d)
        cases.append(Case.simple(d, xs, {"regime": reg, "view": name}))
    run_impl(cases)
    viols = O.spec_check("C11", cases, "the batch re-evaluation of the defining difference equations")
    # inside a chain the difference equations are driven by what the inner view DELIVERS (chain_closed_form): each view over an inner view with a
    # warm-up against the same view over Echo replayed on the inner view's outputs (counting raw updates instead of delivered values shows only here)
    cpairs = chain_groups(rng, 2 * len(C11_VIEWS) * k, names=C11_VIEWS)
    cc = [c for p_ in cpairs for c in p_[:2]]
    run_impl(cc)
    cgroups, creps = [], []
    for (ch, inn, core_d) in cpairs:
        if "E" in inn.outs() or "E" in ch.outs():
            continue
        r = replay_case(core_d, inn.outs(), {"view": core_d[0], "role": "replay"})
        cgroups.append((ch, inn, r))
        creps.append(r)
    run_impl(creps)
    cases += cc + creps
    viols += O.c01_chain(cgroups)
    return finish("C11", "C11", cases, viols, "each Ehlers-style view stand-alone (every MA for EFT/PFE), N from its minimum: streaming output vs batch re-evaluation of the difference equations from the whole history; exact rationals, coefficients through the shared surrogate exp/cos/sin")

# ---------------------------------------------------------------------------------- C10
LINEAR = ["Sma", "Ema", "Alma", "Cumulative", "Laguerre", "Ss", "Roofing", "Cyber"]
def run_C10(rng, tier):
    k = scale(tier)
    triples, cases = [], []
    for i in range(70 * k):
        name = LINEAR[i % len(LINEAR)]
        d = mk_view(rng, name)
        heavy = is_heavy(d)
        L = 12 if heavy else 20 + rng.below(10)
        g = 1 if heavy else 4
        _, xs = gen_stream(rng, L, grid=g)
        _, ys = gen_stream(rng, L, grid=g)
        a, b = F(rng.below(13) - 6, 1 if heavy else 2), F(rng.below(13) - 6, 1 if heavy else 2)
        if i % 5 == 4:
            a, b = a * rng.choice([F(1, 10 ** 15), F(1, 2 ** 70), F(10 ** 9)]), b * rng.choice([F(1, 10 ** 15), F(0), F(1, 2 ** 70)])
        zs = [a * x + b * y for x, y in zip(xs, ys)]
        t = (Case.simple(d, xs, {"view": name, "regime": "x"}), Case.simple(d, ys, {"view": name, "regime": "y"}), Case.simple(d, zs, {"view": name, "regime": "ax+by"}), (a, b))
        triples.append(t)
        cases += t[:3]
    consts = []
    for name in ("Sma", "Ema", "Alma", "Laguerre", "Cyber"):
        for n in ((6, 7, 9) if name == "Cyber" else (1, 2, 5)):
            d = mk_view(rng, name, n=n)
            consts.append(Case.simple(d, [F(7, 2)] * 16, {"view": name, "regime": "const"}))
    for n in (4, 5):
        consts.append(Case.simple(("Cyber", n, E), [F(1)] * 16, {"view": "Cyber", "regime": "const"}))
    cases += consts
    run_impl(cases)
    viols = O.c10(triples, consts)
    # f64 long runs: DC gain of SuperSmoother (-> c) and of the high-pass members (-> 0)
    fc = []
    for n in (2, 3, 5, 8, 16, 40):
        fc.append(Case.simple(("Ss", n, E), [F(5)] * 3000, {"view": "Ss", "regime": "const-long", "model": False, "mode": "f64"}))
        fc.append(Case.simple(("Roofing", n, 3, E), [F(5)] * 3000, {"view": "Roofing", "regime": "const-long", "model": False, "mode": "f64"}))
        fc.append(Case.simple(("Cyber", n + 4, E), [F(5)] * 3000, {"view": "Cyber", "regime": "const-long", "model": False, "mode": "f64"}))
    run_impl(fc, mode="f64")
    viols += O.c10_dc(fc)
    return finish("C10", "C10", cases, viols, "three runs x, y, a*x+b*y with rational a, b incl. 0 and negatives for the eight linear views: exact superposition at every step; constant streams for the DC gains (exact), 3000-step f64 runs for the limits", {"f64_cases": len(fc)})

# ---------------------------------------------------------------------------------- C12
AFFINE_INV = ["Hln", "Vsct", "Cti", "Net", "Eft"]
SCALE_INV = ["Rsi", "MyRsi", "Lrsi", "Vst", "Roc", "Cog", "Entropy", "TrendFlex", "ReFlex", "LnReturn", "Drawdown"]
SCALE_EQ = ["Min", "Max", "Sma", "Ema", "Alma", "Cumulative", "Welford", "WelfordMean", "Laguerre", "Ss", "Cyber", "Roofing"]
NEGATE = ["Hln", "Vsct", "Vst", "MyRsi", "Cti", "Net", "TrendFlex", "ReFlex"]
def run_C12(rng, tier):
    k = scale(tier)
    groups = {"affine": [], "scale_inv": [], "scale_eq": [], "negate": [], "rsi_neg": [], "minmax": []}
    cases = []
    def pair(kind, d, xs, ys, prm):
        c1 = Case.simple(d, xs, {"view": d[0], "regime": "base"})
        c2 = Case.simple(d, ys, {"view": d[0], "regime": kind})
        groups[kind].append((c1, c2, prm))
        cases.extend([c1, c2])
    def stream(d, positive=False):
        heavy = is_heavy(d)
        L = 12 if heavy else 18 + rng.below(10)
        return gen_stream(rng, L, positive=positive or needs_positive(d), grid=1 if heavy else 4)[1]
    for i in range(26 * k):
        a = F(1 + rng.below(12), rng.choice([1, 2, 4]))
        b = F(rng.below(41) - 20, 2)
        d = mk_view(rng, AFFINE_INV[i % len(AFFINE_INV)], n=(3 + rng.below(6) if AFFINE_INV[i % len(AFFINE_INV)] in ("Cti",) else None))
        xs = stream(d)
        pair("affine", d, xs, [a * x + b for x in xs], (a, b))
        d = mk_view(rng, SCALE_INV[i % len(SCALE_INV)])
        xs = stream(d)
        a2 = a * rng.choice([1, 1, F(1, 2 ** 60), F(1, 10 ** 9)]) if d[0] in ("Rsi", "MyRsi", "Lrsi", "Roc", "Cog") else a
        pair("scale_inv", d, xs, [a2 * x for x in xs], (a2, 0))
        d = mk_view(rng, SCALE_EQ[i % len(SCALE_EQ)])
        xs = stream(d)
        pair("scale_eq", d, xs, [a * x for x in xs], (a, 0))
        d = mk_view(rng, NEGATE[i % len(NEGATE)])
        xs = stream(d)
        pair("negate", d, xs, [-x for x in xs], None)
    # extreme units and offsets: a tiny spread on a huge level (timestamps, prices with a large base) is where an absolute or a
    # mean-relative threshold hidden in a guard shows; exact rationals, so the invariance itself is exact
    for rep in range(k):
        for name in AFFINE_INV:
            a = rng.choice([F(1), F(1, 2 ** 20), F(10 ** 6), F(3)])
            if name in ("Cti", "Vsct", "Eft"):
                a = rng.choice([F(1), F(10 ** 6), F(3)])      # the surrogate square root / logarithm works on an absolute 2^-32 grid: no tiny units there
            b = rng.choice([F(2 ** 31 + 1), F(10 ** 9), F(1, 2) - 10 ** 12, F(2 ** 40)])
            d = mk_view(rng, name, n=(3 + rng.below(6) if name == "Cti" else None))
            xs = stream(d)
            pair("affine", d, xs, [a * x + b for x in xs], (a, b))
    # the same maps applied UPSTREAM as views of the chain (Multiply / Add over Echo and Constant) on one and the same raw stream: a wrapper that
    # lets the raw input leak past its inner view is invariant under a map of the raw input, but not under a map placed between Echo and itself
    def chain_pair(kind, name, a, b, prm):
        d1 = mk_view(rng, name, n=(3 + rng.below(6) if name == "Cti" else None))
        if is_heavy(d1):
            return
        inner = ("Mul", E, ("Const", a)) if b is None else ("Add", ("Mul", E, ("Const", a)), ("Const", b))
        i_ = 1 + ARITY[name].index("v")
        d2 = d1[:i_] + (inner,) + d1[i_ + 1:]
        xs = stream(d1)
        c1 = Case.simple(d1, xs, {"view": name, "regime": "base"})
        c2 = Case.simple(d2, xs, {"view": name, "regime": kind + " (map as upstream views)"})
        groups[kind].append((c1, c2, prm))
        cases.extend([c1, c2])
    for rep in range(k):
        for name in AFFINE_INV:
            a, b = F(1 + rng.below(12), rng.choice([1, 2, 4])), F(rng.below(200) - 100, 2)
            chain_pair("affine", name, a, b, (a, b))
        for name in SCALE_INV:
            if name in ("LnReturn", "Drawdown"):
                continue
            a = F(1 + rng.below(12), rng.choice([1, 2, 4]))
            chain_pair("scale_inv", name, a, None, (a, 0))
        for name in NEGATE:
            chain_pair("negate", name, F(-1), None, None)
    for i in range(8 * k):
        d = mk_view(rng, "Rsi")
        xs = stream(d)
        pair("rsi_neg", d, xs, [-x for x in xs], None)
        n = 1 + rng.below(6)
        xs = stream(("Min", n, E))
        c1 = Case.simple(("Min", n, E), xs, {"view": "Min", "regime": "base"})
        c2 = Case.simple(("Max", n, E), [-x for x in xs], {"view": "Max", "regime": "negated"})
        groups["minmax"].append((c1, c2, None))
        cases.extend([c1, c2])
    # recorded witnesses
    pair("scale_inv", ("Vst", 1, E), [F(5)], [F(20)], (F(4), 0))                       # W2
    pair("affine", ("Cti", 5, E), [F(5), F(3)], [F(5) + 7, F(3) + 7], (F(1), F(7)))    # D15
    run_impl(cases)
    viols = O.c12(groups)
    # f64, a = 2^k: bit-exact (the property's power-of-two clause); searched on the implementation, not proved
    fpairs = []
    plan = [(nm, True, kk) for nm in AFFINE_INV + SCALE_INV for kk in (-60, 30)] + [(nm, False, kk) for nm in SCALE_EQ for kk in (-50, 20)]
    for rep in range(k):
        for (name, inv, kk) in plan:
            d = mk_view(rng, name, n=3 + rng.below(7)) if name in WINDOWED else mk_view(rng, name)
            a = F(2) ** kk
            _, xs = gen_stream(rng, 40, positive=needs_positive(d), grid=rng.choice([10, 7, 3]))
            c1 = Case.simple(d, xs, {"view": name, "regime": "base", "model": False, "mode": "f64"})
            c2 = Case.simple(d, [a * x for x in xs], {"view": name, "regime": "x*2^%d" % kk, "model": False, "mode": "f64"})
            fpairs.append((c1, c2, (kk, inv)))
    # ... and at EVERY window length up to 130 (short streams): an invariance lost only for particular lengths cannot hide
    for name in [x for x in AFFINE_INV + SCALE_INV + SCALE_EQ if x in WINDOWED or x == "Roofing"]:
        inv = name not in SCALE_EQ
        lo = {"Roofing": 2, "Cyber": 3}.get(name, 1)
        for n in range(lo, 131):
            d = ("Roofing", n, 1 + n % 4, E) if name == "Roofing" else (name, n, E)
            kk = [-40, 20, 3][n % 3]
            _, xs = gen_stream(rng, (2 * n + 12) if n <= 40 else (n + 12), positive=needs_positive(d), grid=7)
            c1 = Case(d, [("v", 0, x) for x in xs], {"view": name, "regime": "every-n base", "model": False, "mode": "f64"})
            c2 = Case(d, [("v", 0, F(2) ** kk * x) for x in xs], {"view": name, "regime": "every-n x*2^%d" % kk, "model": False, "mode": "f64"})
            fpairs.append((c1, c2, (kk, inv)))
    run_impl([c for p_ in fpairs for c in p_[:2]], mode="f64", profile="release")
    viols += O.c12_pow2(fpairs)
    return finish("C12", "C12", cases, viols, "paired runs x vs a*x+b / a*x / -x with rational a>0 and b for every view the property names; exact equality / scaling / negation of the outputs at every step (degenerate flat windows excluded as the property says); f64 pairs x vs 2^k*x compared bit for bit", {"f64_pow2_pairs": len(fpairs)})

# ---------------------------------------------------------------------------------- C15
def run_C15(rng, tier):
    k = scale(tier)
    cases = []
    def add(d, xs, reg):
        ops = []
        for x in xs:
            ops.append(("u", 0, x))
            if rng.chance(0.3):
                ops.append(("l", 0))
        cases.append(Case(d, [("l", 0)] + ops, {"view": d[0], "regime": reg}))
    regs = ["const", "ties", "signs", "iid", "walk", "const_stretch", "monotone"]
    for name in ALL_UNARY:
        lo = WINDOWED.get(name, {"Roofing": 2, "Pfe": 3, "Eft": 2}.get(name, 1))
        for n in [lo, lo + 1, lo + 2, 5, 9, 17, 33, 64][: (6 if tier == "quick" else 8)]:
            if is_heavy((name,)) and n > 9:
                continue
            d = mk_view(rng, name, n=n)
            for rep in range(1 * k):
                reg = rng.choice(regs)
                L = rng.choice([3, n - 1 if n > 1 else 2, n + 3, 2 * n + 2])
                L = max(2, min(L, 14 if is_heavy(d) else 70))
                r, xs = gen_stream(rng, L, reg, positive=name in POSITIVE_ONLY, grid=1 if is_heavy(d) else 4)
                add(d, xs, r)
    for i in range(40 * k):
        name = ALL_UNARY[rng.below(len(ALL_UNARY))]
        pos = name in POSITIVE_ONLY
        inner = rng.choice(INNERS_POS if pos else INNERS)
        d = mk_view(rng, name, inner)
        r, xs = stream_for(rng, d)
        if pos or inner[0] == "LnReturn":
            r, xs = gen_stream(rng, len(xs), positive=True, grid=1 if is_heavy(d) else 4)
        add(d, xs, r)
    # constructors must reject what update() cannot handle
    rejects = [("Cyber", 1, E), ("Cyber", 2, E), ("Pfe", 1, E, E), ("Pfe", 2, E, E), ("Eft", 1, E, E), ("Roofing", 1, 2, E), ("Min", 0, E), ("Max", 0, E), ("Welford", 0, E)]
    rcases = [Case.simple(d, [1, 2, 3], {"view": d[0], "regime": "ctor-reject"}) for d in rejects]
    run_impl(cases + rcases)
    viols = O.c15(cases, rcases, "ex/debug")
    # f64, debug and release profiles, N up to 64, long-ish streams
    for prof in ("debug", "release"):
        fc = [Case(c.desc, c.ops, dict(c.meta, model=False, mode="f64", profile=prof)) for c in cases]
        for name in ALL_UNARY:
            lo = WINDOWED.get(name, {"Roofing": 2, "Pfe": 3, "Eft": 2}.get(name, 1))
            for n in ([lo, 2, 3, 13, 64] if tier == "quick" else list(range(lo, 65))):
                if n < lo:
                    continue
                d = mk_view(rng, name, n=n)
                r, xs = gen_stream(rng, 200, rng.choice(regs + ["volatile_flat"]), positive=name in POSITIVE_ONLY, grid=8)
                fc.append(Case.simple(d, xs, {"view": name, "regime": r, "model": False, "mode": "f64", "profile": prof}))
        run_impl(fc, mode="f64", profile=prof)
        viols += O.c15(fc, [], "f64/" + prof)
    return finish("C15", "C15", cases + rcases, viols, "every view (N = minimum, +1, +2, 5, 9, 17, 33, 64) and two-level chains, streams shorter and longer than N, constant / tied / zero streams, last() interleaved at random; exact scalar with debug assertions, then f64 in debug and release profiles; constructor rejection below the minimum",
                  {"f64_profiles": ["debug", "release"]})

# ---------------------------------------------------------------------------------- C17
def run_C17(rng, tier):
    k = scale(tier)
    cases, lineages = [], []
    for i in range(4 * len(ALL_UNARY) * k):
        name = ALL_UNARY[i % len(ALL_UNARY)]
        pos = name in POSITIVE_ONLY
        inner = rng.choice([E, E] + (INNERS_POS if pos else INNERS))
        d = mk_view(rng, name, inner)
        if i % 7 == 0:
            d = rng.choice(["Sub", "Mul"]), d, ("Sma", 2, E)
        heavy = is_heavy(d)
        steps = 10 if heavy else 30
        ops, lin = [], [[]]
        twin = rng.chance(0.3)
        if twin:
            ops.append(("c", 0))
            lin.append([])
        for s in range(steps):
            r = rng.below(10)
            i_ = rng.below(len(lin))
            if r < 5:
                x = F(1 + rng.below(80), 1 if heavy else 10) if (pos or inner[0] == "LnReturn") else F(rng.below(81) - 40, 1 if heavy else 10)
                if twin and s < steps // 2:
                    for j in range(len(lin)):
                        ops.append(("u", j, x))
                        lin[j] = lin[j] + [x]
                else:
                    ops.append(("u", i_, x))
                    lin[i_] = lin[i_] + [x]
            elif r < 8:
                for _ in range(1 + rng.below(3)):
                    ops.append(("l", i_))
            elif len(lin) < 4:
                ops.append(("c", i_))
                lin.append(list(lin[i_]))
        c = Case(d, ops, {"view": name, "regime": "schedule"})
        cases.append(c)
    run_impl(cases)
    viols, refs = O.c17_prepare(cases)
    run_impl(refs)
    viols += O.c17(cases, refs)
    fc = [Case(c.desc, c.ops, dict(c.meta, model=False, mode="f64")) for c in cases]
    run_impl(fc, mode="f64")
    v2, frefs = O.c17_prepare(fc)
    for r in frefs:
        r.meta.update(model=False, mode="f64")
    run_impl(frefs, mode="f64")
    viols += v2 + O.c17(fc, frefs, f64=True)
    static = O.c17_static()
    viols += static
    return finish("C17", "C17", cases + refs, viols, "random schedules of update / last / clone over up to 4 instances (twin phases where all instances get the same input, repeated last(), divergent continuations); every observation compared with a fresh instance fed that instance's update lineage; exact scalar and f64 bits; static scan of /repo/src for shared or interior-mutable state",
                  {"schedules": len(cases), "reference_runs": len(refs), "f64_schedules": len(fc)})

# ---------------------------------------------------------------------------------- C18
def pop_bound(d):
    """python mirror of coq/SpecStruct.v `pop_bound` (proved sound: pop_bound_sound); the two are compared on every run"""
    name = d[0]
    sub = sum(pop_bound(a) for kind, a in zip(ARITY[name], d[1:]) if kind == "v")
    n = d[1] if len(d) > 1 and isinstance(d[1], int) else 0
    wb = max(n, 1)
    single = {"Sma", "Cumulative", "Min", "Max", "Roc", "Welford", "WelfordMean", "WelfordVar", "Vst", "Vsct", "Hln", "Entropy", "Cog", "Cti", "Net",
              "Rsi", "MyRsi", "TrendFlex", "ReFlex", "Pfe"}
    if name in single:
        return sub + wb
    if name in ("Alma", "AlmaCustom"):
        return sub + 3 * wb
    if name == "Cyber":
        return sub + 2 * wb + n
    if name == "Laguerre":
        return sub + 10
    if name == "Lrsi":
        return sub + 12
    if name == "Eft":
        return sub + 2 * wb
    return sub

def coq_pop_bounds(descs):
    body = ("From Coq Require Import List ZArith QArith.\nFrom SF Require Import Res Scalar View Models Exec SpecStruct.\nImport ListNotations.\nClose Scope Q_scope. Close Scope Z_scope.\n"
            "Eval vm_compute in (map (fun d => (Z.of_nat (@pop_bound Q d), 0%Z)) [\n" + ";\n".join(d_coq(d) for d in descs) + "\n]).\n")
    (rc, txt), = run_coq_shards("C18_bounds", [body])
    prs = parse_pairs(txt) if rc == 0 else None
    if prs is None or len(prs) != len(descs):
        raise CoqError("could not evaluate pop_bound in Coq: " + txt[-800:])
    return [p_[0] for p_ in prs]

def run_C18(rng, tier):
    k = scale(tier)
    cases = []
    for i in range(3 * len(ALL_UNARY) * k):
        name = ALL_UNARY[i % len(ALL_UNARY)]
        pos = name in POSITIVE_ONLY
        inner = rng.choice([E, E] + (INNERS_POS if pos else INNERS))
        d = mk_view(rng, name, inner)
        heavy = is_heavy(d)
        L = 14 if heavy else 40
        r, xs = gen_stream(rng, L, positive=(pos or inner[0] == "LnReturn"), grid=1 if heavy else 4)
        cases.append(Case.simple(d, xs, {"view": name, "regime": r}))
    run_impl(cases)
    viols = O.c18_pop(cases, pop_bound)
    cb = coq_pop_bounds([c.desc for c in cases])
    for c, b in zip(cases, cb):
        if b != pop_bound(c.desc):
            viols.append(("c18-bound-mirror", "python mirror of pop_bound disagrees with the proved Coq function on %s: %d vs %d" % (d_sexpr(c.desc), pop_bound(c.desc), b), {"kind": "internal", "no_failing_input": True}))
            break
    # long f64 runs: population bounded by the proved bound at every step and constant once the window has filled; live heap bytes at L, 2L, 4L
    fc, mem = [], []
    for i in range(len(ALL_UNARY) * k):
        name = ALL_UNARY[i % len(ALL_UNARY)]
        pos = name in POSITIVE_ONLY
        inner = rng.choice([E] + (INNERS_POS if pos else INNERS))
        d = mk_view(rng, name, inner)
        n = pop_bound(d)
        L = 300 if tier == "quick" else 3000
        r, xs = gen_stream(rng, L, "walk", positive=True, grid=8)
        fc.append(Case.simple(d, xs, {"view": name, "regime": "long", "model": False, "mode": "f64"}))
        mem.append(d)
        if name in WINDOWED or name in ("Roofing", "Pfe", "Eft"):
            big = mk_view(rng, name, rng.choice([E, ("Sma", 60, E)]), n=rng.choice([40, 64, 100, 128, 33 + rng.below(30)]))     # large window / inner view silent for a while
            mem.append(big)
            if not is_heavy(big):
                r2, xs2 = gen_stream(rng, 700, "walk", positive=True, grid=8)
                fc.append(Case.simple(big, xs2, {"view": name, "regime": "long/large-window", "model": False, "mode": "f64"}))
    # every window length up to 130: population against the proved bound at every step, constant once the window has filled
    for name in [x for x in ALL_UNARY if x in WINDOWED or x in ("Roofing", "Pfe", "Eft", "WelfordMean", "WelfordVar", "EmaAlpha", "AlmaCustom")]:
        lo = {"Roofing": 2, "Cyber": 3, "Pfe": 3, "Eft": 2}.get(name, 1)
        for n in range(lo, 131):
            d = mk_view(rng, name, E, n=n)
            if is_heavy(d) and n > 40 and n % 8:
                continue
            _, xs = gen_stream(rng, 4 * n + 40 if n <= 30 else 2 * n + 60, "walk", positive=True, grid=8)
            fc.append(Case.simple(d, xs, {"view": name, "regime": "every-n", "model": False, "mode": "f64"}))
    run_impl(fc, mode="f64")
    viols += O.c18_pop(fc, pop_bound, long=True)
    viols += O.c18_mem(mem, 2000 if tier == "quick" else 250000)
    return finish("C18", "C18", cases, viols, "every view over Echo and over an inner view: number of elements in all buffers of the Debug dump at every step against the proved bound pop_bound(descriptor); long f64 runs: population constant between stream length L/2 and L; live heap bytes of the view at L, 2L, 4L (counting allocator) must not grow",
                  {"long_f64_runs": len(fc), "heap_measurements": len(mem)})

# ---------------------------------------------------------------------------------- C09
RECURSIVE = ["Ema", "Laguerre", "Ss", "Roofing", "Cyber", "TrendFlex", "ReFlex", "Lrsi", "Eft"]
def long_case(d, xs, meta, every=50):
    """quiet updates, observing every `every` steps and at the end"""
    ops = []
    for i, x in enumerate(xs):
        if (i + 1) % every == 0 or i == len(xs) - 1:
            ops.append(("u", 0, x))
        else:
            ops.append(("q", 0, x))
    return Case(d, ops, dict(meta, model=False, mode="f64"))

def run_C09(rng, tier):
    k = scale(tier)
    U = 100
    L = 4000 if tier == "quick" else 40000
    # exact-scalar tie for the recursive views and chains of them
    cases = standalone_cases(rng, RECURSIVE, 45 * k)
    for i in range(10 * k):
        a = mk_view(rng, rng.choice(["Ema", "Laguerre", "Cyber"]))
        d = mk_view(rng, rng.choice(["Ema", "Laguerre", "Lrsi", "Eft"]), a)
        r, xs = stream_for(rng, d)
        cases.append(Case.simple(d, xs, {"view": d[0], "regime": r, "chain": True}))
    run_impl(cases)
    viols = O.no_error("C09", cases)
    # long f64 runs: bounded output, bound independent of the length
    longs, pairs = [], []
    nlist = lambda lo: sorted(set([lo, lo + 1, lo + 2, 3, 4, 5, 6, 7, 8, 9, 16, 40]) - set(range(0, lo)))
    for name in RECURSIVE:
        lo = {"Roofing": 2, "Cyber": 3, "Eft": 2}.get(name, 1)
        ns = nlist(lo) if name != "Laguerre" else [0]
        for n in (ns if tier == "thorough" else ns[::2] + ns[-1:]):
            if name == "Laguerre":
                d = ("Laguerre", rng.choice([F(0), F(1, 2), F(4, 5), F(9, 10)]), E)
            elif name == "Roofing":
                d = ("Roofing", n, 1 + rng.below(8), E)
            elif name == "Eft":
                d = ("Eft", n, E, rng.choice(MAS))
            else:
                d = (name, n, E)
            reg = rng.choice(["iid", "walk", "signs", "const_stretch"])
            _, xs = gen_stream(rng, L, reg, grid=8)
            xs = [max(F(-U), min(F(U), x * 5)) for x in xs]
            longs.append(long_case(d, xs, {"view": name, "regime": reg + "-long"}))
            # fading: different prefixes, common non-degenerate tail
            _, tail = gen_stream(rng, L // 2, "iid", grid=8)
            p1 = [F(rng.below(200) - 100) for _ in range(40)]
            p2 = [F(rng.below(2000) - 1000, 10) for _ in range(40)]
            pairs.append((long_case(d, p1 + tail, {"view": name, "regime": "prefixA+tail"}, every=10 ** 9),
                          long_case(d, p2 + tail, {"view": name, "regime": "prefixB+tail"}, every=10 ** 9)))
            if n in (ns[0], ns[-1]):
                # an early excursion of huge values / a tail of tiny amplitude must fade all the same
                p3 = [F(rng.below(2000) - 1000) * 10 ** 13 for _ in range(40)]
                _, tail2 = gen_stream(rng, L, "iid", grid=8)      # the slowest proven rate here is 0.96 per step on a squared quantity: 4000 steps cover 1e32
                pairs.append((long_case(d, p1 + tail2, {"view": name, "regime": "prefixA+tail"}, every=10 ** 9),
                              long_case(d, p3 + tail2, {"view": name, "regime": "hugeprefix+tail"}, every=10 ** 9)))
                tiny = [x / 10 ** 9 for x in tail]
                pairs.append((long_case(d, p1 + tiny, {"view": name, "regime": "prefixA+tinytail"}, every=10 ** 9),
                              long_case(d, p2 + tiny, {"view": name, "regime": "prefixB+tinytail"}, every=10 ** 9)))
    chains = [("Ema", 3, ("Ss", 5, E)), ("Ss", 4, ("Roofing", 3, 2, E)), ("Laguerre", F(1, 2), ("Cyber", 6, ("Ema", 2, E))), ("Lrsi", 4, ("Ss", 3, E)), ("Eft", 5, ("Ema", 3, E), ("Ema", 3, E))]
    for d in chains:
        _, xs = gen_stream(rng, L, "iid", grid=8)
        longs.append(long_case(d, [x * 5 for x in xs], {"view": d[0], "regime": "chain-long"}))
    # the recorded W3 witness: LaguerreRSI on a constant tail
    w3 = (long_case(("Lrsi", 16, E), [F(v) for v in (10, 11, 12, 13, 14)] + [F(5)] * 4000, {"view": "Lrsi", "regime": "W3-const-tail"}, every=10 ** 9),
          long_case(("Lrsi", 16, E), [F(2), F(1)] + [F(5)] * 4003, {"view": "Lrsi", "regime": "W3-const-tail"}, every=10 ** 9))
    allf = longs + [c for p in pairs for c in p] + list(w3)
    run_impl(allf, mode="f64")
    viols += O.c09(longs, pairs, w3, U)
    return finish("C09", "C09", cases, viols, "recursive views for N = minimum..9, 16, 40 (all gammas / MAs): %d-step f64 runs on inputs bounded by 100 (bounded finite output, bound independent of the length), pairs of streams with different prefixes and a common non-degenerate tail (outputs must have converged), chains; exact-scalar correspondence on short runs" % L,
                  {"long_f64_runs": len(longs), "fading_pairs": len(pairs), "stream_length": L})

# ---------------------------------------------------------------------------------- C16
C16_VIEWS = ["Sma", "Cumulative", "Alma", "Rsi", "MyRsi", "Welford", "WelfordMean", "Vst", "Vsct", "Hln", "Cti", "Net", "Roc", "Ema", "Min", "Max", "Cog"]
def run_C16(rng, tier):
    k = scale(tier)
    L = 20000 if tier == "quick" else 50000      # the exact scalar keeps every intermediate value of a case alive: memory grows with L
    groups = []
    def sampled(d, xs, meta, every):
        ops = []
        for i, x in enumerate(xs):
            ops.append(("u" if ((i + 1) % every == 0 or i == len(xs) - 1) else "q", 0, x))
        return Case(d, ops, meta)
    # long streams, bounded dynamic range: magnitudes and steps within three decades
    for name in C16_VIEWS + ["WRolling", "WRollingMean", "Cyber"]:
        for n in ([2, 5, 14] if tier == "quick" else [1, 2, 3, 5, 14, 50]):
            if name == "Cyber":
                n = max(n, 6)
            d = (name, E) if name in ("WRolling", "WRollingMean") else (name, n, E)
            c = F(500)
            xs = []
            # exact runs of the recursive views grow by a few bits per step: shorter streams there
            for _ in range(L if name not in ("Ema", "Cyber") else 1500):
                st = F(rng.below(981) + 10, 10) * rng.choice([1, -1])      # steps 1.0 .. 99.0 in tenths (not binary64 numbers: sums round), reflected at the borders
                c = c + st if F(1) <= c + st <= F(1000) else c - st
                xs.append(c)
            meta = {"view": name, "regime": "long-bounded-range", "model": False}
            groups.append(("long", sampled(d, xs, dict(meta, mode="f64"), 997), sampled(d, xs, dict(meta, mode="ex"), 997), None))
            if name in ("WRolling", "WRollingMean"):
                break
    # volatile stretch, then >= N+1 identical values
    for name in C16_VIEWS + ["Cyber"]:
        for rep in range(3 * k):
            n = rng.choice([2, 3, 5, 13]) if name != "Cyber" else rng.choice([6, 9])
            d = (name, n, E)
            mag = rng.choice([1000, 1000000, 30])
            pre = [F(rng.below(2 * mag * 1000) - mag * 1000, 1000) for _ in range(20 + rng.below(40))]
            v = F(rng.below(9000) + 1, 10)
            flat = [v] * (n + 1 + rng.below(4) + (n if name == "Alma" else 0))
            xs = pre + flat
            meta = {"view": name, "regime": "volatile-then-flat", "model": False, "flat_len": len(flat), "flat_value": str(v)}
            groups.append(("flat", Case.simple(d, xs, dict(meta, mode="f64")), Case.simple(d, xs, dict(meta, mode="ex")), v))
    # the same shapes at tiny and at large units (powers of two): scale-free indicators must not notice
    for name in ("Hln", "Net", "Roc", "Sma", "Ema", "Min", "Cumulative", "Rsi", "MyRsi", "Cog", "Max", "WelfordMean"):      # not the sqrt-based ones: the surrogate sqrt is not scale-free
        for kk in (-60, 40, -70):
            n = rng.choice([2, 3, 5])
            d = (name, n, E)
            xs = [F(rng.below(9000) + 1, 10) * F(2) ** kk for _ in range(60)]
            meta = {"view": name, "regime": "units-2^%d" % kk, "model": False}
            groups.append(("long", Case.simple(d, xs, dict(meta, mode="f64")), Case.simple(d, xs, dict(meta, mode="ex")), None))
    # recorded D14 witnesses
    for d, xs in ((("Rsi", 3, E), [1, 2, 1000000, 3, 5, 5, 5, 5, 5]), (("MyRsi", 3, E), [1, 2, 1000000, 3, 5, 5, 5, 5, 5])):
        meta = {"view": d[0], "regime": "volatile-then-flat", "model": False, "flat_len": 5, "flat_value": "5"}
        groups.append(("flat", Case.simple(d, xs, dict(meta, mode="f64")), Case.simple(d, xs, dict(meta, mode="ex")), F(5)))
    run_impl([g[1] for g in groups], mode="f64", profile="release")
    run_impl([g[2] for g in groups], mode="ex", profile="release", prec=(96, 64))
    viols = O.c16(groups)
    # C16 quantifies over streams whose non-zero magnitudes and step sizes span at most three decades: steps in [1, 99] inside [1, 1000], on the
    # lattice of tenths so that the values are NOT binary64 numbers and every sum rounds (integer walks make all sums exact and hide drift)
    # (the finer steps of the other properties' dense runs put nearly flat windows in front of Vst / Vsct: see c02-welford-residue-*)
    dg, dv = dense_vs_exact(rng, tier, C16_VIEWS + ["WRolling", "WRollingMean"], "c16", grid=10, minstep=1)
    viols += dv
    groups += dg
    mc, mv = million_constant(rng, tier, C16_VIEWS + ["WRolling", "WRollingMean", "WelfordVar"], "c16")
    viols += mv
    hw, hv = huge_window_long(rng, tier, "c16")
    viols += hv
    mc = mc + hw
    # f32, shorter streams
    f32 = []
    for name in ("Sma", "Cumulative", "Ema", "WelfordMean", "Rsi", "Min", "Max"):
        d = (name, 5, E)
        xs = []
        c = F(500)
        for _ in range(3000):
            st = F(rng.below(981) + 10, 10) * rng.choice([1, -1])
            c = c + st if F(1) <= c + st <= F(1000) else c - st
            xs.append(c)
        meta = {"view": name, "regime": "f32-long", "model": False}
        f32.append(("f32", sampled(d, xs, dict(meta, mode="f32"), 499), sampled(d, xs, dict(meta, mode="ex"), 499), None))
    run_impl([g[1] for g in f32], mode="f32", profile="release")
    run_impl([g[2] for g in f32], mode="ex", profile="release", prec=(96, 64))
    viols += O.c16(f32, tol=F(1, 100))
    # exact-scalar tie of the anchored views (short runs, model vs code)
    cases = standalone_cases(rng, C16_VIEWS, 40 * k)
    run_impl(cases)
    return finish("C16", "C16", cases, viols, "f64 (release) against the same code at the exact scalar (surrogates at 2^-64): %d-step streams with magnitudes and steps inside three decades, sampled every 997 steps (tolerance 1e-6 x scale); volatile prefixes of magnitude 30 / 1e3 / 1e6 followed by >= N+1 identical values (tolerance 1e-4 x scale, exact flat answers); f32 on 3000-step streams (1e-2); plus the exact-scalar correspondence of the anchored views" % L,
                  {"f64_vs_exact_runs": len(groups), "f32_runs": len(f32), "stream_length": L, "long_f64_runs": len(mc), "constant_stream_length": 1000000 if tier == "quick" else 4000000})
