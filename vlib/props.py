"""Steps 2 and 3 of every check: the tie to /repo and the property oracles, per property."""
import json, math
from fractions import Fraction as F
from .core import *
from .gen import *
from . import oracles as O

def scale(tier):
    return 1 if tier == "quick" else 6

def summarize(cases, rule, extra=None):
    ev = len(cases)
    distinct = len({(d_sexpr(c.desc), tuple(c.ops)) for c in cases if nontrivial(c)})
    hist_view, hist_reg, errs = {}, {}, 0
    for c in cases:
        v = c.meta.get("view", c.desc[0])
        hist_view[v] = hist_view.get(v, 0) + 1
        r = c.meta.get("regime", "-")
        hist_reg[r] = hist_reg.get(r, 0) + 1
        if c.obs and any(b.kind == "E" for b in c.obs) or c.ctor_ok is False:
            errs += 1
    cov = {"evaluations": ev, "distinct_nontrivial": distinct, "rule": rule,
           "samples": [c.to_json() for c in cases[:3]],
           "views_histogram": hist_view, "regime_histogram": hist_reg, "cases_with_error_or_rejected_ctor": errs}
    if extra:
        cov.update(extra)
    return cov

def corr_violations(pid, tag, cases, accept_pop_diff=True):
    """correspondence model vs implementation; returns (violations, stats)"""
    mcases = [c for c in cases if c.meta.get("model", True)]
    res = correspondence(tag, mcases)
    viols = []
    nbad = 0
    popd = 0
    for c, (fd, pd) in zip(mcases, res):
        popd += 1 if pd else 0
        if fd != 0:
            nbad += 1
            if len(viols) < 3:
                mo = model_outputs(tag + "_m", c)
                viols.append(("correspondence", "model and implementation disagree on %s at operation %d: the theorems of %s are no longer "
                              "tied to this code (obligation: correspondence of coq/Models.v with /repo/src)" % (d_sexpr(c.desc), fd, pid),
                              {"kind": "correspondence", "case": c.to_json(), "first_diff_op": fd, "model": mo, "no_failing_input": True}))
    return viols, {"traces_validated_against_impl": len(mcases), "correspondence_mismatches": nbad, "population_differences_model_vs_impl": popd}

def finish(pid, tag, cases, oracle_viols, rule, extra=None):
    cv, st = corr_violations(pid, tag, cases)
    viols = list(oracle_viols)
    if oracle_viols:
        # a concrete failing input exists: the correspondence failure (if any) is explained by it
        viols += []
    else:
        viols += cv
    cov = summarize(cases, rule, extra)
    cov.update(st)
    return {"coverage": cov, "violations": viols}

# ====================================================================================== per property
def run(pid, tier, seed):
    rng = Rng(seed * 1000 + int(pid[1:]))
    return globals()["run_" + pid](rng, tier)

def replay(pid, path):
    j = json.load(open(path))
    cases = []
    def collect(x):
        if isinstance(x, dict):
            if "desc" in x and "ops" in x:
                cases.append(Case.from_json(x))
            for v in x.values():
                collect(v)
        elif isinstance(x, list):
            for v in x:
                collect(v)
    collect(j)
    if not cases:
        return {"coverage": {"evaluations": 0, "distinct_nontrivial": 0, "rule": "replay (no case in file: " + j.get("kind", "?") + ")", "samples": []}, "violations": []}
    run_impl(cases)
    viols = O.oracle_for(pid, cases)
    return finish(pid, pid + "_replay", cases, viols, "replay of " + path)

# ---------------------------------------------------------------------------------- C14
def run_C14(rng, tier):
    k = scale(tier)
    cases = []
    # binary combinators over pairs of children, children also run stand-alone
    kids = [E, ("Sma", 2, E), ("Ema", 3, E), ("Cumulative", 3, E), ("Min", 2, E), ("Const", F(3, 2)), ("Roc", 2, E), ("Max", 3, E)]
    groups = []
    for i in range(40 * k):
        op = ["Add", "Sub", "Mul", "Div"][i % 4]
        a = rng.choice(kids)
        b = rng.choice([x for x in kids if x[0] not in ("Roc",)] if op == "Div" else kids)
        reg, xs = gen_stream(rng, 16 + rng.below(16), positive=(op == "Div"))
        g = [Case.simple((op, a, b), xs, {"regime": reg, "view": op, "role": "parent"}),
             Case.simple(a, xs, {"role": "a", "view": a[0]}), Case.simple(b, xs, {"role": "b", "view": b[0]})]
        groups.append(g)
        cases += g
    for i in range(30 * k):
        name = ["Tanh", "Gte", "Lte"][i % 3]
        a = rng.choice(kids)
        d = mk_view(rng, name, a)
        reg, xs = gen_stream(rng, 16 + rng.below(16), grid=rng.choice([1, 2, 4]))
        g = [Case.simple(d, xs, {"regime": reg, "view": name, "role": "parent"}), Case.simple(a, xs, {"role": "a", "view": a[0]})]
        groups.append(g)
        cases += g
    for i in range(6 * k):
        reg, xs = gen_stream(rng, 12)
        c = F(rng.below(40) - 20, 4)
        g = [Case.simple(rng.choice([E, ("Const", c)]), xs, {"regime": reg, "role": "parent"})]
        groups.append(g)
        cases += g
    run_impl(cases)
    viols = O.c14(groups)
    # f64: bit-identical pointwise recomputation
    f64groups = []
    fc = []
    for g in groups[:len(groups) // 2]:
        gg = [Case(c.desc, c.ops, dict(c.meta, model=False, mode="f64")) for c in g]
        f64groups.append(gg)
        fc += gg
    run_impl(fc, mode="f64")
    viols += O.c14(f64groups, f64=True)
    return finish("C14", "C14", cases, viols,
                  "combinator over random children, children run stand-alone on the same inputs; non-trivial = at least 3 distinct observations; f64 repeat of half of the groups",
                  {"f64_cases": len(fc)})
