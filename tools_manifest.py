#!/usr/bin/env python3
"""Regenerates MANIFEST.json from the table below (kept in one place so it stays valid)."""
import json, os
ROOT = os.path.dirname(os.path.abspath(__file__))
T = "Rocq proof about the hand-written model + exact-scalar correspondence with /repo's code"
CLAIMED = {
 "C01": ("5.1", "Generic theorems (any scalar, any inner view): a chain's output list is the replay of the wrapper's core on the inner view's outputs (mrun_wrap, chain_cout), binary nodes report exactly where both children do (mrun_binop, zipf_some), every sub-view of a descriptor tree is in its stand-alone state after the raw inputs (subviews_forwarded, wrap/binop_forwards_exactly), MA arguments receive exactly the computed feed. Tie: exact and f64-bit comparison of chain vs stand-alone inner + replay over Echo on the implementation, probe leaves, and model correspondence on all of them.", T),
 "C02": ("5.2", "Closed-form theorems at R for all N>=1 and all histories: cout(core) vs = spec(lastn N vs) for Sma, Cumulative, Min, Max, Roc (with hold rule), WelfordOnline mean/variance/last, Vst, Vsct, HLNormalizer, BinaryEntropy, by invariants relating incremental state to the window. Tie: implementation vs batch definition (exact rationals) and vs model.", T),
 "C03": ("5.3", "Finite-memory theorems: cout c (p++s) = cout c (p'++s) for arbitrary prefixes once |s| >= K, for every listed view (K = N; N+1 for Rsi/MyRSI/Roc under the stated non-degeneracy, with the hold lemmas and refutations showing the exceptions are necessary; 2N-1 for Alma, tight). Tie: paired prefix/suffix runs on the implementation, exact.", T),
 "C04": ("5.4", "Weighted-mean lemmas (hull, constant, monotone, affine) and closed forms of Ema (recursion for every input) and Alma (Gaussian insertion-index kernel), giving hull/constant/monotone/affine for Sma, Ema, Alma at every step. Tie: single and paired runs on the implementation, exact; batch recursion/kernel specs.", T),
 "C05": ("5.5", "Rsi and MyRSI closed forms in G and L over the N most recent changes (all N>=1, all histories), warm-up, rising/falling/flat corollaries, negation laws. Tie: implementation vs batch G/L spec, exact; negation pairs.", T),
 "C06": ("5.6", "CTI = Pearson on full windows, NET = Kendall tau over all pairs with ties 0, CoG formula; affine windows give +-1, monotone windows give the sign (CTI) / +-1 (NET), negation, order-only. The clause 'CTI is +1 on any strictly increasing window' is refuted (cti_monotone_refuted) and carried as known finding W1. Tie: batch correlation specs on the implementation, exact.", T),
 "C07": ("5.7", "Range theorems at R at every step for every listed view (Rsi, MyRSI, HLN, CTI, NET, LaguerreRSI, entropy, EFT <= ln199, Welford >= 0, Vsct Samuelson bound, hull of Sma/Alma/Min/Max, Drawdown [0,1) monotone, CoG); PFE's range is refuted (known finding W4). f64 'few ulps' clause: kernel-checked refutation on model@float (Vsct) as known finding, positive float-level theorems for CTI, Rsi, Min/Max/GTE/LTE; other views searched on the implementation at f64, not proved.", T + "; f64 ulps clause partly by vm_compute refutations on primitive floats, rest exploration"),
 "C08": ("5.8", "For every descriptor tree satisfying the guards (okd): readiness never reverts and no error (readiness_never_reverts, good_denote); exact warm-up indices for all listed views; starved wrappers keep their answer. Tie: first-value index, None-prefix shape, starved chains and 400-step f64 runs on the implementation.", T),
 "C09": ("5.9", "BIBO with explicit gains and geometric fading (explicit rate, or epsilon form for Roofing) for Ema, LaguerreFilter, SuperSmoother (quadratic-form norm), Roofing (pole < 1 for all N>=2), CyberCycle (all N>=3); |TrendFlex|,|ReFlex| <= 5, |EFT| <= ln199, gain composition. LaguerreRSI fading on constant tails is refuted for all steps (known finding W3); fading of the normalised TrendFlex/ReFlex/LaguerreRSI outputs on non-degenerate tails is only searched (long f64 runs), not proved.", T + "; normalised-output fading only explored"),
 "C10": ("5.10", "Superposition theorems (cout on a*x+b*y = a*out(x)+b*out(y)) for all eight linear views, all N / gamma; DC gains: exact reproduction (Sma, Ema, Alma, Laguerre), SuperSmoother converges, Roofing and CyberCycle(N>=6) decay to 0 after any prefix; CyberCycle N in {4,5} refuted (known finding D11).", T),
 "C11": ("5.11", "Streaming = batch difference equations at every history for SuperSmoother, Roofing, LaguerreFilter, CyberCycle (N>=6; all N>=3 against the generalised spec), TrendFlex, ReFlex, LaguerreRSI, EFT and PFE (for any MA view, through the list the MA receives); coefficients as functions of N only. Tie: implementation vs python batch re-evaluation with shared surrogate exp/cos/sin, exact.", T),
 "C12": ("5.12", "Invariance theorems under a*x+b, a*x, -x for every view the property names (proved on the closed forms); Vst on flat windows (W2) is refuted and carried as a known finding; the power-of-two f64 clause is proved for every listed view at any radix-2 FLX format (binary64 without underflow/overflow).", T),
 "C13": ("5.13", "WelfordRolling mean/std (population), Drawdown (= max over j of (peak_j - x_j)/peak_j, proved equal to the literal definition), LnReturn closed forms for all positive streams; the clause \"without the error growing beyond rounding noise\" is quantified: WelfordRolling mean drift (linear in t, sharp) and variance drift (wr_var_drift, linear in t) in the standard rounding model with binary64 instances, and Drawdown within 3 x 2^-53 of the exact answer at the primitive-float instance for every positive stream (drawdown_f64_accuracy). Tie: batch definitions on the implementation, exact.", T),
 "C14": ("5.14", "Theorems over the generic model (any scalar, any child views): each combinator's output list is the pointwise lift of its children's output lists, GTE/LTE hold only while the child is silent, the combinator state is the tuple of child states; at the primitive-float instance Add/Subtract/Multiply/Divide are the correctly rounded IEEE operation on the children's current outputs and GTE/LTE/Echo/Constant are exact (FAccBComb). Tie: exact-rational and f64-bit pointwise recomputation on the implementation.", T),
 "C15": ("5.15", "no_panic: for every descriptor tree whose window lengths meet the guards (okd) and every in-domain input list the model run has no Err (index, underflow, unwrap, division, sqrt/ln domain); constructors reject what update() cannot handle (new_rejects). Tie: Err in the model iff panic/non-finite in the code at the same step (exact scalar with debug assertions), f64 debug+release runs N up to 64. The former f64-only failure of Rsi (D14: -inf / debug panic) was repaired; rsi_flat_f64 proves the flat-window answer at the primitive-float instance.", T),
 "C16": ("5.16", "Partial by nature. Exact half: flat-window answers proved at R for every listed view. Float half: model@float (PrimFloat) is the same generic model; 250 recorded f64 runs of the code are reproduced bit-for-bit inside Coq (flt_cases_green); kernel-checked refutations (Vst, Vsct stuck for ever on flat windows: WelfordOnline residue) are known findings, the Rsi/MyRSI ones were repaired and are now positive theorems for all streams (rsi_flat_f64, myrsi_flat_f64); bridge theorems (PrimFloat run = binary64-rounded run under finiteness) and standard-model drift bounds for the Sma/Cumulative running sums, Ema, and the Welford accumulators (mean, m2, variance, std, and the amplification in Vst/Vsct: welford_m2_drift, vst_drift; the residue provably need not vanish: welford_m2_residue_persists) with the Flocq binary64 discharge; length-independent f64 accuracy at the primitive-float instance for the recomputing views (HLN 8 ulp, NET correctly rounded, Rsi, Roc 3.01 ulp relative, Drawdown 3 ulp, CoG on positive inputs) with refutations where it is false (MyRSI next to 2^53, CTI/CoG under cancellation). Everything else (1e-6 tracking over 2e4-step streams, all views) is a search on the implementation against the exact scalar, reported as exploration.", "Rocq proof (exact half, vm_compute refutations on primitive floats, Flocq drift bounds) + f64-vs-exact search"),
 "C17": ("5.17", "Schedule semantics over instance tables: every observation equals vlast at the state reached by that instance's update lineage (sched_run_lineage, lineage_obs), last() is pure and erasable, same lineage => same observation, clone and instance independence. Generic, axiom-free. Tie: random update/last/clone schedules on the implementation compared with fresh instances fed the lineage (exact and f64 bits) and with the model's schedule semantics; static scan for shared/interior-mutable state.", T),
 "C18": ("5.18", "pop_bound_sound: for every descriptor tree and every input list the number of buffered elements is <= pop_bound(descriptor), a function of the window lengths only (generic, axiom-free). Tie: Debug-dump element counts of the implementation at every step against the proved bound, long runs for constancy, live heap bytes at L, 2L, 4L with a counting allocator (measurement).", T + "; allocator measurement as supporting exploration"),
}
PENDING = {}
def main():
    props = [json.loads(l) for l in open(os.path.join(ROOT, "properties.jsonl"))]
    checks, na = [], []
    for p in props:
        pid = p["id"]
        if pid in CLAIMED:
            ref, text, tech = CLAIMED[pid]
            checks.append({
                "property_id": pid,
                "quick_cmd": "./check %s --tier quick" % pid,
                "thorough_cmd": "./check %s --tier thorough" % pid,
                "evidence_file": "evidence/%s.json" % pid,
                "replay_cmd_template": "./check %s --replay {path}" % pid,
                "engine": "rocq-proof+correspondence",
                "level_claimed": {"category": "proof", "text": text, "design_ref": "DESIGN.md section " + ref},
                "level_note": "Trusted: Coq 8.16.1 kernel (vm_compute, no native_compute); the hand-written model coq/Models.v, tied to /repo only by the correspondence check on the generated cases of each run; harness/src/ex.rs (exact scalar, surrogate transcendentals, self-tested against coq/Surrogate.v); rustc/cargo. Axioms per theorem are re-printed by Print Assumptions on every run and compared with the allowlist in vlib/proofs.py.",
                "technique": tech,
            })
        else:
            na.append({"property_id": pid, "reason": PENDING.get(pid, "check under construction in this session; not claimed until its theorems and correspondence are in place")})
    m = {
        "version": 1,
        "setup_cmd": "./setup.sh",
        "hooks": {"guard": "sliding_features_verif", "enable": "none needed: no hook is compiled into /repo; checks build /repo as it is (RUSTFLAGS=\"--cfg sliding_features_verif\" is reserved)",
                  "baseline_off_cmd": "cd /repo && cargo test --workspace --no-fail-fast --offline", "source_commits": [], "add_only": True},
        "engines": [{"name": "rocq-proof+correspondence", "path": "coq/ harness/ vlib/ check",
                     "serves_properties": sorted(CLAIMED), "kind_free_text": "Rocq (Coq 8.16.1) theorems about a hand-written executable model; correspondence check runs model (vm_compute at Q) and /repo's code (at an exact rational num::Float scalar and at f64) on the same inputs"}],
        "checks": checks,
        "not_applicable": na,
        "notes": "See DESIGN.md. `fix:` commits in /repo and remaining known findings are listed in known_findings.txt.",
    }
    json.dump(m, open(os.path.join(ROOT, "MANIFEST.json"), "w"), indent=1)
if __name__ == "__main__":
    main()
