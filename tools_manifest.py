#!/usr/bin/env python3
"""Regenerates MANIFEST.json from the table below (kept in one place so it stays valid)."""
import json, os
ROOT = os.path.dirname(os.path.abspath(__file__))
CLAIMED = {
 "C14": ("5.14", "Theorems over the generic model (any scalar, any child views): each combinator's output list is the pointwise lift of its children's output lists, GTE/LTE hold only while the child is silent, the combinator state is the tuple of child states. Tie: exact-rational and f64-bit correspondence of model and code on random children, plus a pointwise recomputation oracle on the implementation's own outputs.",
         "Rocq proof (generic induction over the input list) + exact-scalar correspondence"),
}
PENDING = {}
def main():
    props = [json.loads(l) for l in open(os.path.join(ROOT, "properties.jsonl"))]
    checks, na = [], []
    for p in props:
        pid = p["id"]
        if pid in CLAIMED:
            ref, text, tech = CLAIMED[pid]
            checks.append({
                "property_id": pid,
                "quick_cmd": "./check %s --tier quick" % pid,
                "thorough_cmd": "./check %s --tier thorough" % pid,
                "evidence_file": "evidence/%s.json" % pid,
                "replay_cmd_template": "./check %s --replay {path}" % pid,
                "engine": "rocq-proof+correspondence",
                "level_claimed": {"category": "proof", "text": text, "design_ref": "DESIGN.md section " + ref},
                "level_note": "Trusted: Coq 8.16.1 kernel (vm_compute, no native_compute); the hand-written model coq/Models.v, tied to /repo only by the correspondence check on the generated cases of each run; harness/src/ex.rs (exact scalar, surrogate transcendentals, self-tested against coq/Surrogate.v); rustc/cargo. Axioms per theorem are re-printed by Print Assumptions on every run and compared with the allowlist in vlib/proofs.py.",
                "technique": tech,
            })
        else:
            na.append({"property_id": pid, "reason": PENDING.get(pid, "check under construction in this session; not claimed until its theorems and correspondence are in place")})
    m = {
        "version": 1,
        "setup_cmd": "./setup.sh",
        "hooks": {"guard": "sliding_features_verif", "enable": "none needed: no hook is compiled into /repo; checks build /repo as it is (RUSTFLAGS=\"--cfg sliding_features_verif\" is reserved)",
                  "baseline_off_cmd": "cd /repo && cargo test --workspace --no-fail-fast --offline", "source_commits": [], "add_only": True},
        "engines": [{"name": "rocq-proof+correspondence", "path": "coq/ harness/ vlib/ check",
                     "serves_properties": sorted(CLAIMED), "kind_free_text": "Rocq (Coq 8.16.1) theorems about a hand-written executable model; correspondence check runs model (vm_compute at Q) and /repo's code (at an exact rational num::Float scalar and at f64) on the same inputs"}],
        "checks": checks,
        "not_applicable": na,
        "notes": "See DESIGN.md. `fix:` commits in /repo and remaining known findings are listed in known_findings.txt.",
    }
    json.dump(m, open(os.path.join(ROOT, "MANIFEST.json"), "w"), indent=1)
if __name__ == "__main__":
    main()
