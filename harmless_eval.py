#!/usr/bin/env python3
"""False-alarm test: behaviour-preserving refactorings (/tmp/mut_out3/<id>/patch.diff) must not raise any alarm.
Each patch is applied to a scratch worktree; all 18 quick checks run against it through VERIF_REPO.
usage: HARM_WORKER=k python3 harmless_eval.py <ids...>   -> /verif/seeded/harmless/<id>.json"""
import os, sys, json, subprocess, time
SRC = "/tmp/mut_out3"
W = os.environ.get("HARM_WORKER", "1")
WT = "/tmp/harm_wt_" + W
PROPS = ["C%02d" % i for i in range(1, 19)]

def sh(cmd, cwd=None, timeout=3600):
    r = subprocess.run(cmd, shell=True, cwd=cwd, stdout=subprocess.PIPE, stderr=subprocess.STDOUT, text=True, timeout=timeout)
    return r.returncode, r.stdout

def main():
    if not os.path.exists(WT):
        sh("git -C /repo worktree add -q --detach %s HEAD" % WT)
    os.makedirs("/verif/seeded/harmless", exist_ok=True)
    for mid in sys.argv[1:]:
        d = os.path.join(SRC, mid)
        sh("git checkout -q -- .", cwd=WT)
        rc, out = sh("git apply %s" % os.path.join(d, "patch.diff"), cwd=WT)
        if rc != 0:
            print(mid, "patch does not apply", out[-200:])
            continue
        rc, out = sh("cargo test --offline --lib 2>&1 | grep 'test result'", cwd=WT)
        res = {"id": mid, "meta": json.load(open(os.path.join(d, "meta.json"))), "suite": out.strip(), "checks": {}}
        env = "VERIF_REPO=%s VERIF_BUILD_TAG=_h%s VERIF_SKIP_PROOFS=1 VERIF_EVIDENCE_DIR=/tmp/harm_ev_%s VERIF_REPLAY_DIR=/tmp/harm_rp_%s " % (WT, W, W, W)
        alarms = []
        for p in PROPS:
            t = time.time()
            rc, out = sh(env + "./check %s --tier quick" % p, cwd="/verif")
            v = [l for l in out.split("\n") if l.startswith("VIOLATION")]
            msg = [l.strip() for l in out.split("\n") if l.startswith("  ")][:2]
            res["checks"][p] = {"exit": rc, "violations": v[:2], "messages": msg if rc else [], "wall_s": round(time.time() - t)}
            if rc != 0:
                alarms.append(p)
        res["alarms"] = alarms
        json.dump(res, open("/verif/seeded/harmless/%s.json" % mid, "w"), indent=1)
        os.makedirs("/verif/seeded/harmless/patches", exist_ok=True)
        subprocess.run("cp %s /verif/seeded/harmless/patches/%s.diff" % (os.path.join(d, "patch.diff"), mid), shell=True)
        print(mid, "suite:", out.strip()[:0], res["suite"][:60], "| alarms:", alarms, {p: res["checks"][p]["messages"][:1] for p in alarms}, flush=True)
        sh("git checkout -q -- .", cwd=WT)

if __name__ == "__main__":
    main()
