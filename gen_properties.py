#!/usr/bin/env python3
"""Generates coq/Properties/Cxx.v: for each property the list of its theorems, each restated verbatim
(the statement text is copied from the proof file, so it is visible here and pinned: if the proved
lemma is ever weakened the `exact` below stops type-checking) and closed by the lemma.
Run after changing the table; the generated files are committed."""
import re, os, sys
ROOT = os.path.dirname(os.path.abspath(__file__))
COQ = os.path.join(ROOT, "coq")

# property -> [(file (without .v, relative to coq/), lemma name)]
TABLE = {
 "C01": [("Proofs/Chain", n) for n in ["mrun_wrap", "mrun_binop", "zipf_some", "mrun_mapview", "mrun_from_standalone"]] +
        [("Core", n) for n in ["chain_cout", "standalone_cout"]] +
        [("Proofs/StructFwd", n) for n in ["steps_wrap_fst", "state_after_wrap_fst", "wrap_forwards_exactly", "steps_binop_both", "binop_forwards_exactly",
                                           "state_after_mapview", "state_after_wrap_snd", "pfe_ma_state_after", "eft_ma_state_after", "pfe_chain_ma", "eft_chain_ma",
                                           "subviews_forwarded", "leaves_forwarded"]],
 "C02": [("Proofs/SmaP", "sma_closed_form")] +
        [("Proofs/WinAP", n) for n in ["cumulative_closed_form", "min_closed_form", "max_closed_form", "roc_closed_form", "min_is_minimum", "max_is_maximum"]] +
        [("Proofs/WelfP", n) for n in ["welford_mean_closed_form", "welford_var_closed_form", "welford_closed_form", "vst_closed_form", "vsct_closed_form"]] +
        [("Proofs/HlnP", n) for n in ["hln_closed_form", "entropy_closed_form"]],
 "C03": [("Proofs/AvgP", n) for n in ["sma_finite_memory", "alma_finite_memory", "alma_finite_memory_gen", "alma_memory_2n_minus_2_refuted"]] +
        [("Proofs/WinAP", n) for n in ["cumulative_finite_memory", "min_finite_memory", "max_finite_memory", "roc_finite_memory", "roc_hold", "roc_finite_memory_unconditional_refuted"]] +
        [("Proofs/WelfP", n) for n in ["welford_mean_finite_memory", "welford_var_finite_memory", "welford_finite_memory", "vst_finite_memory", "vsct_finite_memory"]] +
        [("Proofs/HlnP", n) for n in ["hln_finite_memory", "entropy_finite_memory"]] +
        [("Proofs/CorrP", n) for n in ["cti_finite_memory", "net_finite_memory", "cog_finite_memory"]] +
        [("Proofs/RsiP", n) for n in ["rsi_finite_memory2", "myrsi_finite_memory2", "myrsi_hold", "myrsi_no_finite_memory"]],
 "C04": [("Proofs/AvgP", n) for n in ["wmean_bounds", "wmean_const", "wmean_mono", "wmean_affine", "ema_closed_form", "ema_default_closed_form", "alma_closed_form",
                                      "alma_default_closed_form", "alma_kernel", "sma_hull", "sma_const", "sma_mono", "sma_affine", "ema_default_hull", "ema_hull", "ema_const",
                                      "ema_default_mono", "ema_affine", "alma_hull", "alma_const", "alma_mono", "alma_affine", "alma_steady_is_sma", "ema_hull_large_alpha_refuted"]],
 "C05": [("Proofs/RsiP", n) for n in ["rsi_closed_form", "myrsi_closed_form", "rsi_answer", "myrsi_answer", "rsi_warmup", "myrsi_warmup", "rsi_rising", "myrsi_rising",
                                      "rsi_falling", "myrsi_falling", "rsi_negation", "rsi_negation_flat", "myrsi_negation", "rsi_flat", "myrsi_flat"]],
 "C06": [("Proofs/CorrP", n) for n in ["cti_closed_form", "cti_affine", "cti_pos", "cti_neg_decr", "cti_neg", "cti_monotone_refuted", "cti_warmup_is_pearson", "net_closed_form",
                                       "net_monotone", "net_neg", "net_order_only", "net_incr_map", "cog_closed_form", "cog_const"]],
 "C07": [("Proofs/RsiP", n) for n in ["rsi_range", "myrsi_range"]] + [("Proofs/HlnP", n) for n in ["hln_range", "entropy_range"]] +
        [("Proofs/CorrP", n) for n in ["cti_range", "net_range", "cog_range"]] + [("Proofs/WelfP", n) for n in ["welford_last_nonneg", "welford_var_nonneg", "vsct_bound"]] +
        [("Proofs/RollP", n) for n in ["wrolling_nonneg", "drawdown_range", "drawdown_monotone"]] + [("Proofs/WinAP", n) for n in ["min_max_range"]] +
        [("Proofs/AvgP", n) for n in ["sma_hull", "alma_hull"]],
 "C08": [("Proofs/SafeAll", n) for n in ["readiness_never_reverts", "good_denote"]] +
        [("Proofs/SafeP", n) for n in ["warmup_spec_sma", "warmup_spec_ema", "warmup_spec_ss", "warmup_spec_rsi", "warmup_spec_myrsi", "warmup_spec_roofing", "warmup_spec_lnret",
                                       "warmup_spec_welford", "warmup_spec_vst", "warmup_spec_vsct", "warmup_spec_first", "warmup_echo", "chain_warmup"]] +
        [("Proofs/SafeBase", n) for n in ["wrap_ready_mono", "wrap_starved", "wrap_starved_steps"]] + [("Proofs/RollP", n) for n in ["lnret_ready", "drawdown_ready", "wrolling_ready"]],
 "C10": [("Proofs/AvgP", n) for n in ["sma_linear", "ema_linear", "alma_linear", "sma_const", "ema_const", "alma_const"]] + [("Proofs/WinAP", "cumulative_linear")] +
        [("Proofs/LinLinear", n) for n in ["ss_linear", "roofing_linear", "laguerre_linear", "cyber_linear"]] +
        [("Proofs/LinDC", n) for n in ["laguerre_dc", "ss_dc_gain", "ss_dc_fixed_point", "hp_dc_forcing", "hp_dc_homogeneous", "cyber_dc_zero"]] +
        [("Proofs/LinConv", n) for n in ["ss_dc_converges", "cyber_dc_decays"]] + [("Proofs/LinCCSmall", n) for n in ["cyber_small_n_dc_refuted", "cyber3_identically_zero"]],
 "C11": [("Proofs/LinSS", n) for n in ["ss_closed_form", "roofing_closed_form", "cos_theta_neq"]] + [("Proofs/LinLag", "laguerre_closed_form")] +
        [("Proofs/LinCC", n) for n in ["cyber_closed_form", "cyber_closed_form_gen"]],
 "C12": [("Proofs/HlnP", n) for n in ["hln_affine_invariant", "hln_negation", "entropy_scale_invariant"]] +
        [("Proofs/WelfP", n) for n in ["vsct_affine_invariant", "vst_scale_invariant", "welford_mean_scale", "welford_last_scale", "vsct_negate", "vst_negate", "vst_scale_flat_refuted"]] +
        [("Proofs/CorrP", n) for n in ["cti_affine_inv", "cti_neg", "net_affine_inv", "net_neg", "cog_scale", "cti_warmup_is_pearson"]] +
        [("Proofs/RsiP", n) for n in ["rsi_scale_invariant", "myrsi_scale_invariant", "rsi_negation", "myrsi_negation"]] +
        [("Proofs/WinAP", n) for n in ["min_scale", "max_scale", "min_neg", "max_neg", "cumulative_scale", "roc_scale"]] +
        [("Proofs/AvgP", n) for n in ["sma_scale", "ema_scale", "alma_scale"]] + [("Proofs/RollP", n) for n in ["drawdown_scale_invariant", "lnret_scale_invariant"]] +
        [("Proofs/LinLinear", n) for n in ["ss_scales", "roofing_scales", "laguerre_scales", "cyber_scales"]],
 "C13": [("Proofs/RollP", n) for n in ["wrolling_mean_closed_form", "wrolling_closed_form", "drawdown_closed_form", "spec_drawdown_is_def", "drawdown_closed_form_def", "lnret_closed_form"]],
 "C15": [("Proofs/SafeAll", n) for n in ["no_panic", "good_denote"]] + [("Proofs/SafeP", n) for n in ["new_rejects", "safe_abc", "sma_window0_fails", "cumulative_window0_fails", "roc_window0_fails"]] +
        [("Proofs/SafeBase", n) for n in ["wrap_safe", "vsafe_mrun"]],
 "C16": [("Proofs/WelfP", n) for n in ["c16_exact", "welford_flat", "vsct_flat", "vst_flat"]] + [("Proofs/RsiP", n) for n in ["rsi_flat", "myrsi_flat"]] +
        [("Proofs/HlnP", "hln_flat_window")] + [("Proofs/CorrP", n) for n in ["cti_const", "net_const"]] + [("Proofs/AvgP", n) for n in ["sma_const", "ema_const", "alma_const"]] +
        [("Proofs/LinDC", "cyber_dc_zero")],
 "C17": [("Proofs/StructSched", n) for n in ["sched_run_lineage", "sched_lineage", "lineage_obs", "last_pure", "last_erasure", "same_lineage_same_last", "same_lineage_same_update",
                                             "instance_independence", "clone_independence", "sched_deterministic"]],
 "C18": [("Proofs/StructBound", n) for n in ["pop_bound_sound", "pop_bound_bounded", "core_bounded_crun", "view_bounded_state_after", "sma_pop", "cyber_pop"]] +
        [("Proofs/StructSched", n) for n in ["sched_pop_bound", "sched_pop_bounded"]],
}
EXTRA15 = {
 "C09": [("Proofs/BridgeEEma", n) for n in ["ema_all_finite_of_bound", "ema_prim_drift_bounded", "ema_f64_bibo_gen", "ema_f64_bibo", "ema_f64_bibo_prefix", "ema_f64_finite"]],
 "C08": [("Proofs/BridgeEEma", "ema_f64_finite")] + [("Proofs/BridgeEWelf", n) for n in ["welford_f64_finite", "welford_f64_finite_prefix", "welford_f64_state_finite"]] +
        [("Proofs/BridgeEP", n) for n in ["sma_f64_finite", "cumulative_f64_finite"]],
 "C16": [("Proofs/BridgeEEma", n) for n in ["ema_prim_drift_bounded", "ema_bridge_bounded"]] +
        [("Proofs/BridgeEWelf", n) for n in ["welford_all_finite_of_bound", "welford_mean_prim_drift_bounded", "welford_m2_prim_drift_bounded"]] +
        [("Proofs/BridgeEWr", n) for n in ["wr_all_finite_of_bound", "wr_s_prim_drift_bounded", "wr_var_prim_drift_bounded"]] +
        [("Proofs/BridgeEP", n) for n in ["sma_f64_bibo_gen", "sma_f64_bibo", "cumulative_f64_bibo"]],
 "C13": [("Proofs/BridgeEWr", n) for n in ["wr_s_prim_drift_bounded", "wr_var_prim_drift_bounded"]],
 "C04": [("Proofs/BridgeEP", "sma_f64_bibo")] + [("Proofs/BridgeEEma", "ema_f64_bibo")],
 "C15": [("Proofs/BridgeEWelf", "welford_f64_finite")],
}
EXTRA14 = {
 "C16": [("Proofs/BridgeWOps", n) for n in ["prim_sqrt_fin", "prim_sqrt_fin_inv", "prim_sqrt_neg", "prim_div_ge1_fin", "prim_arith_sim3"]] +
        [("Proofs/BridgeWP", n) for n in ["welford_bridge", "welford_mean_bridge", "welford_var_bridge", "welford_bridge_run", "vst_bridge", "vsct_bridge", "wr_bridge", "wr_bridge_run",
                                          "welford_mean_prim_drift", "welford_m2_prim_drift", "welford_var_prim_drift", "welford_std_prim_drift", "vst_prim_drift", "vsct_prim_drift",
                                          "wr_s_prim_drift", "wr_var_prim_drift", "welford_answers_finite", "welford_checkers_weaken"]] +
        [("Proofs/BridgeWBound", n) for n in ["sma_all_finite_of_bound", "sma_all_finite_of_bound_simple", "sma_prim_drift_bounded", "sma_bridge_bounded",
                                              "cumulative_all_finite_of_bound", "cumulative_prim_drift_bounded"]],
 "C13": [("Proofs/BridgeWP", n) for n in ["wr_bridge", "wr_s_prim_drift", "wr_var_prim_drift"]],
 "C02": [("Proofs/BridgeWP", n) for n in ["welford_mean_prim_drift", "welford_var_prim_drift", "welford_std_prim_drift", "vst_prim_drift", "vsct_prim_drift"]] +
        [("Proofs/BridgeWBound", n) for n in ["sma_prim_drift_bounded", "cumulative_prim_drift_bounded"]],
 "C04": [("Proofs/BridgeWBound", "sma_prim_drift_bounded")],
 "C08": [("Proofs/BridgeWP", "welford_answers_finite")],
}
EXTRA13 = {
 "C14": [("Proofs/FAccBComb", n) for n in ["add_f64_correctly_rounded", "sub_f64_correctly_rounded", "mul_f64_correctly_rounded", "div_f64_correctly_rounded",
                                           "add_f64_run", "sub_f64_run", "mul_f64_run", "div_f64_run", "binop_last_none", "gte_f64_exact", "lte_f64_exact",
                                           "echo_f64_exact", "constant_f64_exact"]],
 "C16": [("Proofs/FAccBRoc", n) for n in ["roc_f64_accuracy", "roc_state_exact", "roc_f64_readiness", "roc_f64_hold_agrees", "roc_f64_hold_spec", "roc_f64_finite", "roc_f64_accuracy_regime"]] +
        [("Proofs/FAccBDd", n) for n in ["drawdown_f64_accuracy", "drawdown_state_exact", "drawdown_f64_total"]] +
        [("Proofs/FAccBCog", n) for n in ["cog_f64_accuracy_pos", "cog_f64_accuracy_pos_n", "cog_f64_readiness", "cog_f64_accuracy_mixed_refuted"]] +
        [("Proofs/FAccBCti", n) for n in ["cti_f64_accuracy_refuted", "cti_f64_accuracy_refuted4"]] +
        [("Proofs/WdriftVar", n) for n in ["welford_var_drift", "welford_std_drift", "vst_drift", "vsct_drift"]] +
        [("Proofs/WdriftVarB64", n) for n in ["welford_var_drift_b64", "welford_std_drift_b64", "vst_drift_b64", "vsct_drift_b64"]] +
        [("Proofs/WdriftSharp", n) for n in ["down_instance_ok", "welford_m2_residue_persists"]],
 "C02": [("Proofs/FAccBRoc", n) for n in ["roc_f64_accuracy", "roc_f64_hold_agrees"]] + [("Proofs/WdriftVarB64", n) for n in ["vst_drift_b64", "vsct_drift_b64", "welford_std_drift_b64"]] +
        [("Proofs/WdriftSharp", "welford_m2_residue_persists")],
 "C13": [("Proofs/FAccBDd", n) for n in ["drawdown_f64_accuracy", "drawdown_f64_total"]],
 "C06": [("Proofs/FAccBCog", n) for n in ["cog_f64_accuracy_pos", "cog_f64_accuracy_mixed_refuted"]] + [("Proofs/FAccBCti", "cti_f64_accuracy_refuted")],
 "C07": [("Proofs/FAccBDd", "drawdown_f64_accuracy")],
 "C08": [("Proofs/FAccBRoc", "roc_f64_finite"), ("Proofs/FAccBDd", "drawdown_f64_total"), ("Proofs/FAccBCog", "cog_f64_readiness")],
}
EXTRA12 = {
 "C13": [("Proofs/WdriftP", n) for n in ["wr_s_drift", "wr_var_drift"]] + [("Proofs/WdriftB64", n) for n in ["wr_s_drift_b64", "wr_var_drift_b64"]],
 "C16": [("Proofs/WdriftP", n) for n in ["welford_mean_drift", "welford_m2_drift", "wr_s_drift", "wr_var_drift"]] +
        [("Proofs/WdriftB64", n) for n in ["welford_mean_drift_b64", "welford_m2_drift_b64"]],
 "C02": [("Proofs/WdriftB64", n) for n in ["welford_mean_drift_b64", "welford_m2_drift_b64"]],
}
EXTRA11 = {
 "C16": [("Proofs/FAccBase", "sub_sign_exact")] + [("Proofs/FAccHln", n) for n in ["hln_state_exact", "hln_f64_accuracy", "hln_f64_accuracy_refuted"]] +
        [("Proofs/FAccNet", "net_f64_correctly_rounded")] + [("Proofs/FAccRsi", "rsi_f64_accuracy_partial")] + [("Proofs/FAccMy", "myrsi_f64_accuracy_refuted")],
 "C02": [("Proofs/FAccHln", "hln_f64_accuracy")],
 "C06": [("Proofs/FAccNet", "net_f64_correctly_rounded")],
 "C05": [("Proofs/FAccRsi", "rsi_f64_accuracy_partial")],
}
EXTRA10 = {
 "C07": [("Proofs/FRangeP", n) for n in ["C07_f64_exact_ranges", "ratio_range_f64", "all_finite_run_out"]] +
        [("Proofs/FRangeMy", n) for n in ["myrsi_range_f64", "myrsi_range_f64_nan", "myrsi_nan_ex"]] +
        [("Proofs/FRangeRsi", n) for n in ["rsi_range_f64", "rsi_range_f64_nan", "rsi_nan_ex"]] +
        [("Proofs/FRangeHln", n) for n in ["hln_range_f64", "hln_range_f64_fin", "hln_inf_ex"]] +
        [("Proofs/FRangeNet", n) for n in ["net_range_f64", "net_range_f64_any", "net_any_ex"]],
 "C15": [("Proofs/FRangeNet", "net_range_f64_any")],
}
EXTRA9 = {
 "C16": [("Proofs/FltP", n) for n in ["rsi_flat_f64", "myrsi_flat_f64", "myrsi_flat_f64_all"]] + [("Proofs/FltFlat", n) for n in ["rsi_sums_flat", "myrsi_sums_flat"]],
 "C07": [("Proofs/FltP", "rsi_flat_f64")],
 "C15": [("Proofs/FltP", "rsi_flat_f64")],
}
EXTRA8 = {
 "C09": [("Proofs/CompP", n) for n in ["standalone_fading", "wrap_linear", "fading_compose", "fading_compose_needs_ready", "view_fading_all_steps", "fading_chain2",
                                       "fading_chain_list", "fading_chain_outputs", "chain_answers"]],
 "C10": [("Proofs/CompP", n) for n in ["ema_core_linear", "chain_linear"]],
}
EXTRA7 = {
 "C16": [("Proofs/BridgeP", n) for n in ["sma_bridge", "cumulative_bridge", "ema_bridge", "wr_mean_bridge", "bridge_needs_finiteness", "sma_prim_drift", "sma_sum_prim_drift",
                                         "cumulative_prim_drift", "ema_prim_drift", "wr_mean_prim_drift"]] + [("Proofs/BridgeSim", "core_bridge")],
 "C13": [("Proofs/BridgeP", n) for n in ["wr_mean_bridge", "wr_mean_prim_drift"]],
}
EXTRA6 = {
 "C12": [("Proofs/Pow2P", n) for n in ['sma_pow2_flx', 'ema_pow2_flx', 'ema_alpha_pow2_flx', 'cumulative_pow2_flx', 'min_pow2_flx', 'max_pow2_flx', 'rsi_pow2_flx', 'myrsi_pow2_flx', 'roc_pow2_flx', 'hln_pow2_flx', 'cog_pow2_flx', 'welford_pow2_flx', 'welford_mean_pow2_flx', 'vst_pow2_flx', 'vst_flat_pow2_flx', 'vsct_pow2_flx', 'alma_pow2_flx', 'ss_pow2_flx', 'laguerre_pow2_flx', 'roofing_pow2_flx', 'cyber_pow2_flx', 'drawdown_pow2_flx', 'lnret_pow2_flx', 'entropy_pow2_flx', 'lrsi_pow2_flx', 'trendflex_pow2_flx', 'reflex_pow2_flx', 'net_pow2_flx', 'cti_pow2_flx']] +
        [("Proofs/Pow2Flx", n) for n in ["round_FLX_mult_bpow", "flx_rnd_pow2", "b64_round_flx", "b64_round_not_pow2_invariant"]],
}
EXTRA5 = {
 "C11": [("Proofs/LitP", n) for n in ["laguerre_lit_equiv", "lrsi_lit_equiv", "cyber_lit_refines", "cyber_lit_equiv", "cyber_lit_equiv_R", "sim_mrun_wrap"]],
 "C18": [("Proofs/LitP", n) for n in ["laguerre_lit_pop", "lrsi_lit_pop", "cyber_lit_pop"]],
}
EXTRA4 = {
 "C16": [("Proofs/Flt2P", n) for n in ["ema_wfl_err", "ema_drift", "wr_mean_drift", "wr_mean_drift_sharp", "wr_mean_linear_growth"]] +
        [("Proofs/Flt2B64", n) for n in ["ema_drift_b64", "wr_mean_drift_b64", "ema_drift_b64_1e6", "wr_mean_drift_b64_1e6"]],
 "C13": [("Proofs/Flt2B64", n) for n in ["wr_mean_drift_b64", "wr_mean_drift_b64_1e6"]],
 "C07": [("Proofs/Flt2P", n) for n in ["min_fl_exact", "max_fl_exact", "gte_fl_exact", "lte_fl_exact"]] +
        [("Proofs/Flt2Prim", n) for n in ["min_prim_exact", "max_prim_exact", "gte_prim_exact", "lte_prim_exact"]],
}
EXTRA3 = {
 "C01": [("Proofs/ChainSpec", n) for n in ["chain_closed_form", "standalone_closed_form", "chain2_closed_form"]],
 "C02": [("Proofs/ChainInst", n) for n in ["sma_in_any_chain", "cs_sma", "cs_cumulative", "cs_min", "cs_max", "cs_roc", "cs_welford", "cs_vst", "cs_vsct", "cs_hln", "cs_entropy"]],
 "C04": [("Proofs/ChainInst", n) for n in ["cs_ema", "cs_alma"]],
 "C05": [("Proofs/ChainInst", n) for n in ["cs_rsi", "cs_myrsi"]],
 "C06": [("Proofs/ChainInst", n) for n in ["cs_cti", "cs_net", "cs_cog"]],
 "C11": [("Proofs/ChainInst", n) for n in ["cs_ss", "cs_roofing", "cs_laguerre", "cs_cyber", "cs_trendflex", "cs_reflex", "cs_lrsi"]],
 "C13": [("Proofs/ChainInst", n) for n in ["cs_drawdown", "cs_lnret", "cs_wrolling"]],
}
EXTRA2 = {
 "C09": [("Proofs/Stab2SS", n) for n in ["flex_filt_bibo", "flex_filt_fading", "flex_rate_range"]] +
        [("Proofs/Stab2Flex", n) for n in ["trendflex_dev_bounded", "trendflex_dev_fading", "trendflex_ms_bounded", "trendflex_ms_fading", "trendflex_fading_nondegenerate"]] +
        [("Proofs/Stab2Reflex", n) for n in ["reflex_dev_bounded", "reflex_ms_fading", "reflex_fading_nondegenerate"]] +
        [("Proofs/Stab2Lrsi", n) for n in ["lrsi_n1_silent", "lrsi_ladder_fading", "lrsi_fading_nondegenerate"]] +
        [("Proofs/Stab2Eft", n) for n in ["eft_two_run_halving", "eft_fading", "eft_fading_echo", "eft_fading_sma"]] +
        [("Proofs/Stab2Chain", n) for n in ["bibo_chain", "bibo_chain_list"]],
 "C03": [("Proofs/GapA", n) for n in ["pfe_closed_form_full", "pfe_finite_memory_gen", "sma_view_finite_memory", "pfe_sma_finite_memory", "pfe_memory_bound_tight"]],
 "C07": [("Proofs/GapB", n) for n in ["tanh_range", "gte_ge_clip", "lte_le_clip", "min_le_sma_le_max", "min_le_alma_le_max", "min_le_sma_le_max_run"]],
 "C08": [("Proofs/GapC", n) for n in ["starved_constant", "starved_constant_run"]],
 "C05": [("Proofs/GapC", n) for n in ["rsi_rising_whole", "myrsi_rising_whole", "rsi_falling_whole", "myrsi_falling_whole"]],
 "C13": [("Proofs/GapC", n) for n in ["spec_rvar_is_moments", "wrolling_std_is_sqrt_var"]],
}
EXTRA = {
 "C07": [("Proofs/EhlLrsi", "lrsi_range"), ("Proofs/EhlEft", "eft_range_strong"), ("Proofs/EhlFlex", "trendflex_range"), ("Proofs/EhlFlex", "reflex_range"),
         ("Proofs/EhlPfe", "pfe_range_refuted"), ("Proofs/EhlPfe", "pfe_const_value"), ("Proofs/EhlPfe", "pfe_abs_le_one_iff"),
         ("Proofs/FltP", "cti_range_f64"), ("Proofs/FltP", "vsct_bound_f64_refuted")],
 "C09": [("Proofs/StabEma", "ema_bibo"), ("Proofs/StabEma", "ema_fading_exact"), ("Proofs/StabEma", "ema_fading"), ("Proofs/StabEma", "ema_rho_range"), ("Proofs/StabEma", "ema_contraction"),
         ("Proofs/StabLag", "laguerre_bibo"), ("Proofs/StabLag", "laguerre_fading"), ("Proofs/StabLag", "laguerre_L0_geometric"), ("Proofs/StabSS", "ss_bibo"), ("Proofs/StabSS", "ss_fading"),
         ("Proofs/StabSS", "ss_homogeneous_exact"), ("Proofs/StabRoof", "roofing_pole_lt1"), ("Proofs/StabRoof", "roofing_bibo"), ("Proofs/StabRoof", "roofing_dc_decays"),
         ("Proofs/StabRoof", "roofing_fading_eps"), ("Proofs/StabRoof", "hp_tail_explicit"), ("Proofs/StabCC", "cyber_bibo"), ("Proofs/StabCC", "cyber_fading"), ("Proofs/StabCC", "cc_pole_range"),
         ("Proofs/StabFlex", "trendflex_bounded"), ("Proofs/StabFlex", "reflex_bounded"), ("Proofs/StabEft", "eft_bounded"), ("Proofs/StabEft", "fish_fold_halving"),
         ("Proofs/StabComp", "bibo_compose"), ("Proofs/StabBase", "fading_of_zero_input"), ("Proofs/StabBase", "driven_decay"),
         ("Proofs/EhlLrsiAll", "lrsi_never_fades"), ("Proofs/EhlLrsiAll", "lrsi_fading_refuted_all_steps"), ("Proofs/EhlFlex", "trendflex_range"), ("Proofs/EhlEft", "eft_range_strong"),
         ("Proofs/LinConv", "ss_dc_converges"), ("Proofs/LinConv", "cyber_dc_decays")],
 "C10": [("Proofs/StabRoof", "roofing_dc_decays")],
 "C11": [("Proofs/EhlFlex", "trendflex_closed_form"), ("Proofs/EhlFlex", "reflex_closed_form"), ("Proofs/EhlLrsi", "lrsi_closed_form"), ("Proofs/EhlEft", "eft_closed_form"),
         ("Proofs/EhlPfe", "pfe_closed_form"), ("Proofs/EhlP", "eft_closed_form_echo"), ("Proofs/EhlP", "pfe_closed_form_echo")],
 "C12": [("Proofs/EhlFlex", "trendflex_scale_invariant"), ("Proofs/EhlFlex", "reflex_scale_invariant"), ("Proofs/EhlFlex", "trendflex_negate"), ("Proofs/EhlFlex", "reflex_negate"),
         ("Proofs/EhlLrsi", "lrsi_scale_invariant_cout"), ("Proofs/EhlEft", "eft_affine_invariant_cout")],
 "C15": [],
 "C16": [("Proofs/FltP", n) for n in ["rsi_flat_exact", "myrsi_flat_exact", "vst_flat_f64_refuted", "vst_flat_f64_stuck", "vsct_flat_f64_refuted", "vsct_flat_f64_stuck"]] +
        [("Proofs/FltErr", n) for n in ["sma_sum_drift", "sma_out_drift", "cumulative_drift", "sma_sum_drift_b64", "cumulative_drift_b64", "cumulative_drift_b64_gamma"]] +
        [("Proofs/FltCases", "flt_cases_green")],
}

def strip_comments(s):
    out, depth, i = [], 0, 0
    while i < len(s):
        if s.startswith("(*", i):
            depth += 1; i += 2
        elif s.startswith("*)", i) and depth > 0:
            depth -= 1; i += 2
        else:
            if depth == 0:
                out.append(s[i])
            i += 1
    return "".join(out)

def header_of(path, name):
    src = strip_comments(open(path).read())
    m = re.search(r"^\s*(?:Theorem|Lemma|Corollary|Example)\s+%s\b(.*?)\.\s*\n\s*Proof\b" % re.escape(name), src, re.S | re.M)
    if not m:
        m = re.search(r"^\s*(?:Theorem|Lemma|Corollary|Example)\s+%s\b(.*?)\.\s+Proof\b" % re.escape(name), src, re.S | re.M)
    if not m:
        raise SystemExit("statement of %s not found in %s" % (name, path))
    return " ".join(m.group(1).split())

def _merge_extra():
    for ex in (EXTRA2, EXTRA3, EXTRA4, EXTRA5, EXTRA6, EXTRA7, EXTRA8, EXTRA9, EXTRA10, EXTRA11, EXTRA12, EXTRA13, EXTRA14, EXTRA15):
        for k, v in ex.items():
            EXTRA[k] = EXTRA.get(k, []) + v

def imports_for(pid, items):
    mods = []
    for f, _ in items:
        if f not in mods:
            mods.append(f)
    out = ["From Coq Require Import List Arith ZArith QArith Reals Lia Lra Bool Sorted.",
           "From SF Require Import Res Surrogate Scalar View Models Exec Core Spec."]
    specs = sorted({l.strip()[:-2] for l in open(os.path.join(COQ, "_CoqProject")) if re.match(r"Spec[A-Z].*\.v", l.strip())})
    out.append("From SF Require Import %s." % " ".join(specs))
    out.append("From SF.Proofs Require Import Chain Pure Window RBase.")
    for f in mods:
        out.append("From SF%s Require Import %s." % (".Proofs" if f.startswith("Proofs/") else "", f.split("/")[-1]))
    out += ["Import ListNotations.", "Local Open Scope R_scope.", ""]
    return out

def checked_types(pid, items):
    """statements as printed by Coq (`Check @name`), for theorems whose source header uses section variables / local notations"""
    import subprocess, tempfile
    names = []
    for _, n in items:
        if n not in names:
            names.append(n)
    body = "\n".join(imports_for(pid, items)) + "\nSet Printing Width 100000.\nSet Printing Depth 100000.\n" + "".join('Check @%s.\n' % n for n in names)
    d = os.path.join(ROOT, ".build", "genprops")
    os.makedirs(d, exist_ok=True)
    fn = os.path.join(d, pid + "_chk.v")
    open(fn, "w").write(body)
    r = subprocess.run("coqc -noglob -Q %s SF %s" % (COQ, fn), shell=True, capture_output=True, text=True)
    res = {}
    chunks = re.split(r"^(?=@?[A-Za-z_][A-Za-z0-9_']*\n? +: )", r.stdout, flags=re.M)
    for ch in chunks:
        m = re.match(r"@?([A-Za-z_][A-Za-z0-9_']*)\s+: (.*)", ch, re.S)
        if m:
            res[m.group(1)] = " ".join(m.group(2).split())
    return res

LEVELS = {}
_OK = {}
def load_levels():
    p_ = os.path.join(ROOT, "gen_properties.levels")
    if os.path.exists(p_):
        for l in open(p_):
            a, b, c = l.split()
            LEVELS[(a, b)] = int(c)

def main_once():
    for pid in sorted(set(TABLE) | set(EXTRA)):
        items = TABLE.get(pid, []) + EXTRA.get(pid, [])
        out = ["(** %s -- property theorems.  GENERATED by gen_properties.py from the table there: each statement is copied" % pid,
               "    from the proof file (verbatim, or as printed by `Check` where the source uses section variables or local",
               "    notations) and closed by the proved lemma; nothing else is in this file. *)"] + imports_for(pid, items)
        need_chk = any(LEVELS.get((pid, n), 0) >= 1 for _, n in items)
        chk = checked_types(pid, items) if need_chk else {}
        seen = set()
        for f, name in items:
            if name in seen:
                continue
            seen.add(name)
            lvl = LEVELS.get((pid, name), 0)
            if lvl >= 1 and name not in chk:
                lvl = 2
            if lvl == 0:
                hdr = header_of(os.path.join(COQ, f + ".v"), name)
                out.append("Theorem %s_%s %s." % (pid, name, hdr))
                out.append("Proof. first [ exact %s | exact (@%s _) | exact (@%s _ _) | intros; eapply %s; eauto ]. Qed." % (name, name, name, name))
            elif lvl == 1:
                out.append("Theorem %s_%s : %s." % (pid, name, chk[name]))
                out.append("Proof. exact (@%s). Qed." % name)
            else:
                out.append("(* statement (as printed by Check): %s *)" % chk.get(name, "see " + f + ".v").replace("*)", "* )"))
                out.append("Theorem %s_%s : ltac:(let t := type of (@%s) in exact t)." % (pid, name, name))
                out.append("Proof. exact (@%s). Qed." % name)
            out.append("")
        open(os.path.join(COQ, "Properties", pid + ".v"), "w").write("\n".join(out))
        print(pid, len(seen), "theorems")

def main():
    _merge_extra()
    _main()

def _main():
    """generate; compile each property file; on an error inside a theorem raise that theorem's level; repeat"""
    import subprocess
    load_levels()
    for it in range(60):
        main_once()
        changed = False
        from concurrent.futures import ThreadPoolExecutor
        pids = sorted(set(TABLE) | set(EXTRA))
        import hashlib, glob, types
        def comp(pid):
            fn = os.path.join(COQ, "Properties", pid + ".v")
            h = hashlib.sha256(open(fn, "rb").read()).hexdigest()
            vo = fn + "o"
            deps_newest = max(os.path.getmtime(f) for f in glob.glob(os.path.join(COQ, "*.vo")) + glob.glob(os.path.join(COQ, "Proofs", "*.vo")))
            if _OK.get(pid) == h or (it == 0 and os.path.exists(vo) and os.path.getmtime(vo) > deps_newest and os.path.getmtime(vo) > os.path.getmtime(fn)):
                _OK[pid] = h
                return pid, fn, types.SimpleNamespace(returncode=0, stdout="", stderr="")
            r = subprocess.run("coqc -noglob -Q %s SF %s" % (COQ, fn), shell=True, capture_output=True, text=True)
            if r.returncode == 0:
                _OK[pid] = h
            return pid, fn, r
        with ThreadPoolExecutor(16) as ex:
            results = list(ex.map(comp, pids))
        for pid, fn, r in results:
            if r.returncode == 0:
                continue
            m = re.search(r'line (\d+), characters', r.stdout + r.stderr)
            if not m:
                print(pid, "unexpected failure", (r.stdout + r.stderr)[-400:]); continue
            line = int(m.group(1))
            src = open(fn).read().split("\n")
            for k in range(line - 1, -1, -1):
                mm = re.match(r"Theorem %s_([A-Za-z0-9_']+)" % pid, src[k])
                if mm:
                    LEVELS[(pid, mm.group(1))] = LEVELS.get((pid, mm.group(1)), 0) + 1
                    changed = True
                    print("  raise", pid, mm.group(1), "->", LEVELS[(pid, mm.group(1))])
                    break
        with open(os.path.join(ROOT, "gen_properties.levels"), "w") as f_:
            for (a, b), c in sorted(LEVELS.items()):
                f_.write("%s %s %d\n" % (a, b, c))
        if not changed:
            break

if __name__ == "__main__":
    for _ in range(12):
        main()
        break
