#!/bin/sh
# usage: ./integrate.sh NAME  -- copy an agent's deliverables (/tmp/pf_NAME) into coq/ and register them
set -e
n=$1; cd /verif/coq
cp /tmp/pf_$n/Spec$n*.v . 2>/dev/null || true
cp /tmp/pf_$n/Proofs/${n}*.v Proofs/
python3 - "$n" <<'PY'
import sys,re
n=sys.argv[1]
src=[l.strip() for l in open('/tmp/pf_%s/_CoqProject'%n) if l.strip()]
mine=[l for l in src if re.match(r'(Spec%s|Proofs/%s)'%(n,n), l)]
p='/verif/coq/_CoqProject'
lines=[l for l in open(p).read().split('\n') if l]
props=[l for l in lines if l.startswith('Properties/')]
rest=[l for l in lines if not l.startswith('Properties/')]
for a in mine:
    if a not in rest: rest.append(a)
open(p,'w').write('\n'.join(rest+props)+'\n')
print("registered",mine)
PY
coq_makefile -f _CoqProject -o Makefile 2>/dev/null
